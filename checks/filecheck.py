"""Helpers for the File-level enumerations (harness h_file)."""
import json
import os
import shutil
import subprocess
import tempfile

import driver
from checks import enumcheck

ALL_LEVELS = list(range(10))
ALL_CONTS = [1, 2, 3, 5, 16, 31, 32, 33, 47, 48, 49, 64, 100, 0x1ffff, 0x20000, 0x20001, 0x40000, 0x400000]


def harness(variant="sched"):
    return enumcheck.reflect_harness("h_file", variant)


def jobs(exe, base, nshards):
    return [(exe, base + ["shard=%d/%d" % (i, nshards)]) for i in range(nshards)]


def cfg(levels, conts, rps=(0, 1), hps=(0,)):
    return ["levels=" + ",".join(map(str, levels)), "conts=" + ",".join(map(str, conts)), "rps=" + ",".join(map(str, rps)),
            "hps=" + ",".join(map(str, hps))]


def fhashes(results_raw):
    """'F label fnv size' lines -> dict"""
    out = {}
    for l in results_raw:
        if l.startswith("F "):
            parts = l.rsplit(" ", 2)
            out[parts[0][2:]] = (parts[1], parts[2])
    return out


def run_raw(job_list, timeout=900):
    """like enumcheck.run_jobs but also returns the raw 'F ...' lines"""
    from concurrent.futures import ThreadPoolExecutor

    def one(job):
        exe, args = job
        e = dict(os.environ)
        e.update(driver.SAN_ENV)
        try:
            r = subprocess.run([exe] + args, capture_output=True, text=True, env=e, timeout=timeout)
        except subprocess.TimeoutExpired:
            return [{"infra": "timeout", "args": args}], []
        js, raw = [], []
        for l in r.stdout.splitlines():
            if l.startswith("{"):
                try:
                    d = json.loads(l)
                    d["_args"] = args
                    js.append(d)
                except ValueError:
                    js.append({"infra": "unparsable", "raw": l[:200]})
            elif l.startswith(("F ", "E ", "T ")):
                raw.append(l)
        if not js:
            js.append({"infra": "no output rc=%d" % r.returncode, "stderr": r.stderr[-1000:], "args": args})
        return js, raw

    with ThreadPoolExecutor(driver.NCPU) as ex:
        res = list(ex.map(one, job_list))
    js = [d for a, b in res for d in a]
    raw = [l for a, b in res for l in b]
    return js, raw


def tmpdir():
    base = os.path.join(driver.build.BUILD, "tmp")
    os.makedirs(base, exist_ok=True)
    return tempfile.mkdtemp(prefix="files.", dir=base)


def rmtree(d):
    shutil.rmtree(d, ignore_errors=True)


def read_manifests(pattern):
    """manifest lines of the kept files; a child that died in a session (reported by the harness itself as a violation of the
    session) may leave a last, cut-off line behind - it is not a file to verify"""
    import glob
    entries = []
    for mf in sorted(glob.glob(pattern)):
        for l in open(mf, errors="replace"):
            try:
                entries.append(json.loads(l))
            except ValueError:
                pass
    return entries
