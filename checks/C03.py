"""C03 - every written object is framed exactly as its own header declares.

Bounded-exhaustive enumeration of the object universe U (every creatable class x selector values x payload
lengths x fill patterns, stale length fields included) with a tracing in-memory stream: header bytes vs
headerSize, emitted bytes vs objectSize, padding rule by type (padding set computed from the reference logs
by the independent Python decoder), every length field vs the payload emitted, decoding consumes exactly
the emitted bytes; under AddressSanitizer (no read outside the caller's containers)."""
import time

import driver
from checks import enumcheck
import decoder

ASSUME = [
    "object universe U: classes from the generated reflection (clang AST of File.h), selector table hand-written "
    "(harness/universe.h), payload lengths {0,1,2,3}^k plus one-at-a-time {4,5,7,8,17,255,256(,65535,65536,5 containers,300 KiB)} "
    "clipped to the paired length field's width, fill patterns {unique,00,ff,80/7f}",
    "non-selector scalars are copied opaquely by the codecs, which justifies the small fill-pattern alphabet",
    "padding types = types observed with padding in the 170 reference logs; for types never observed with an odd size either form is accepted",
]


def main(argv):
    tier, seed, rp = driver.tier_and_seed(argv)
    if rp:
        return enumcheck.replay(rp)
    t0 = time.time()
    pad, nopad, nobj, ntypes = decoder.padding_sets(driver.build.REPO)
    exe, tables = enumcheck.reflect_harness("h_codec", "plain-asan")
    common = ["mode=frame", "pad=" + ",".join(map(str, pad)), "nopad=" + ",".join(map(str, nopad))]
    common.append("big=1")
    common.append("overlong=1")
    n = 16
    jobs = [(exe, common + ["shard=%d/%d" % (i, n)]) for i in range(n)]
    res = enumcheck.run_jobs(jobs, timeout=900)
    viol, infra, ev, di, samples = enumcheck.collect("C03", res, "h_codec", "plain-asan", accept_props={"C03"})
    rule = ("one evaluation = one object of U encoded to a tracing stream and decoded again; distinct = distinct encodings (FNV of the "
            "emitted bytes); all checks of the framing oracle are applied to each")
    return enumcheck.finish("C03", tier, seed, t0, viol, infra, ev, di, samples, rule, ASSUME,
                            extra={"padding_types_from_reference_logs": pad, "non_padding_types_observed": nopad,
                                   "reference_objects": nobj, "reference_types": ntypes, "classes": len(tables["classes"])})
