"""Shared runner for explicit-state searches over operation histories (engine E2)."""
import json
import os
import subprocess
import time
from concurrent.futures import ThreadPoolExecutor

import driver


def _run(job):
    exe, args, dl = job
    e = dict(os.environ)
    e.update(driver.SAN_ENV)
    try:
        r = subprocess.run([exe] + args + ["deadline=%f" % dl], capture_output=True, text=True, env=e, timeout=dl + 120)
    except subprocess.TimeoutExpired:
        return {"infra": "harness did not honour its deadline", "args": args}
    for l in r.stdout.splitlines():
        if l.startswith("{"):
            try:
                d = json.loads(l)
                d["_args"] = args
                d["_rc"] = r.returncode
                return d
            except ValueError:
                pass
    kind = "memory-error" if "AddressSanitizer" in r.stderr or "runtime error" in r.stderr else None
    if kind:
        return {"violation": {"kind": kind, "detail": r.stderr[-3000:], "history": "?", "replay": ""}, "_args": args, "params": {}}
    return {"infra": "no result (rc %d)" % r.returncode, "stderr": r.stderr[-2000:], "args": args}


def run(prop, argv, hname, jobs_for_tier, assumptions=(), rule="", budget=None):
    """jobs_for_tier(tier) -> list of (variant, [args])"""
    tier, seed, replay = driver.tier_and_seed(argv)
    if replay:
        rp = json.load(open(replay))
        exe = driver.harness(hname, rp["variant"])
        args = [a for a in rp["args"] if not a.startswith(("depth=", "deadline="))] + ["replay=" + rp["replay"]]
        r = subprocess.run([exe] + args, capture_output=True, text=True)
        print(r.stdout.strip()[:4000])
        return r.returncode
    t0 = time.time()
    budget = budget or {"quick": 100.0, "thorough": 1500.0}
    total = budget.get(tier, 100.0)
    jobs = jobs_for_tier(tier)
    violations, infra, coverage = run_jobs(prop, hname, jobs, total, rule)
    return driver.finish(prop, tier, seed, "model_checking", coverage, t0, violations, list(assumptions), infra)


def replay_file(hname, replay):
    rp = json.load(open(replay))
    if "args" not in rp:
        return None
    exe = driver.harness(hname, rp["variant"])
    args = [a for a in rp["args"] if not a.startswith(("depth=", "deadline="))] + ["replay=" + rp["replay"]]
    r = subprocess.run([exe] + args, capture_output=True, text=True)
    print(r.stdout.strip()[:4000])
    return r.returncode


def run_jobs(prop, hname, jobs, total, rule=""):
    t0 = time.time()
    exes = {}
    for variant, _ in jobs:
        if variant not in exes:
            exes[variant] = driver.harness(hname, variant)
    left = total - (time.time() - t0)
    work = [(exes[v], a, max(5.0, left)) for v, a in jobs]
    with ThreadPoolExecutor(driver.NCPU) as ex:
        results = list(ex.map(_run, work))
    violations, infra = [], []
    states = transitions = 0
    exhaustive = True
    per_job, samples = [], []
    for (variant, a), r in zip(jobs, results):
        if r.get("infra"):
            infra.append(r)
            continue
        states += r.get("states", 0)
        transitions += r.get("transitions", 0)
        if not r.get("exhaustive", True):
            exhaustive = False
        per_job.append({"variant": variant, "args": " ".join(a), "states": r.get("states"), "transitions": r.get("transitions"),
                        "max_depth": r.get("max_depth"), "closed": r.get("closed"), "exhaustive": r.get("exhaustive"),
                        "replay_determinism_checks": r.get("replay_determinism_checks"), "wall_s": round(r.get("wall_s", 0), 2)})
        for s in r.get("samples", [])[:1]:
            if len(samples) < 8:
                samples.append({"job": " ".join(a), "history": s})
        v = r.get("violation")
        if v:
            key = "%s|%s|%s" % (hname, v.get("kind"), v.get("history"))
            violations.append({"key": key,
                               "what": "%s: history [%s]: %s" % (v.get("kind"), v.get("history"), v.get("detail", "")[:800]),
                               "replay": {"property": prop, "harness": hname, "variant": variant, "args": a,
                                          "replay": v.get("replay", ""), "history": v.get("history"), "detail": v.get("detail")}})
    coverage = {
        "states": states, "transitions": transitions, "traces_validated_against_impl": transitions,
        "evaluations": transitions, "distinct_nontrivial": states,
        "rule": rule or ("breadth-first search over operation histories; every transition is executed on a fresh real object "
                         "(history replay) and on the reference model and all observable results are compared; states are "
                         "deduplicated by a canonical key over the real object's fields and the model state"),
        "samples": samples or [{"note": "none"}],
        "exhaustive": exhaustive, "jobs": per_job,
    }
    return violations, infra, coverage
