"""C02 - objects from Vector-produced logs survive decode-then-encode byte for byte.

All object images of the reference logs (extracted by the independent Python decoder) plus the raw-object
samples; for each, every single-byte overwrite in [16, objectSize) with 8 boundary values (quick) or all 255
other values (thorough) and every aligned 2/4/8-byte group with 5 boundary patterns; a derived image counts
when it still decodes completely with the same encoded length; its re-encoding must equal it except in
fields the encoder recomputes by design, which must equal the recomputed value."""
import glob
import os
import struct
import time

import driver
from checks import enumcheck
import decoder

ASSUME = [
    "object images are cut from the reference logs by the independent decoder (objectSize + the gap to the next signature)",
    "the fields recomputed by design are the left-hand sides of the assignments in each codec's write() before the header is "
    "written (derived table) plus headerSize/objectSize",
    "same shape is taken as: the derived image decodes completely (consumes exactly the image) and re-encodes to the same length",
]


def images(repo):
    out = []
    for f, i, o in decoder.reference_objects(repo):
        name = "%s#%d(type %d)" % (os.path.basename(os.path.dirname(f)) + "/" + os.path.basename(f), i, o["objectType"])
        span = o["span"]
        out.append((name, span))
    for f in sorted(glob.glob(os.path.join(repo, "src/Vector/BLF/tests/unittests/lobj/**/*"), recursive=True)):
        if os.path.isfile(f) and "/corrupt/" not in f:      # the project itself labels those samples as corrupt
            b = open(f, "rb").read()
            if b[:4] == b"LOBJ" and len(b) >= 16:
                rel = os.path.relpath(f, os.path.join(repo, "src/Vector/BLF/tests/unittests/lobj"))
                try:
                    for i, o in enumerate(decoder.walk_objects(b)):
                        out.append(("lobj/%s#%d(type %d)" % (rel, i, o["objectType"]), o["span"]))
                except decoder.FormatError:
                    pass
    return out


def main(argv):
    tier, seed, rp = driver.tier_and_seed(argv)
    if rp:
        return enumcheck.replay(rp)
    t0 = time.time()
    imgs = images(driver.build.REPO)
    os.makedirs(os.path.join(driver.build.BUILD, "tmp"), exist_ok=True)
    path = os.path.join(driver.build.BUILD, "tmp", "c02_images.%d.bin" % os.getpid())
    with open(path, "wb") as f:
        for name, b in imgs:
            nb = name.encode()
            f.write(struct.pack("<I", len(nb)) + nb + struct.pack("<I", len(b)) + b)
    try:
        exe, tables = enumcheck.reflect_harness("h_codec", "plain-asan")
        n = 32
        common = ["mode=c02", "images=" + path, "allvalues=%d" % (0 if tier == "quick" else 1)]
        res = enumcheck.run_jobs([(exe, common + ["shard=%d/%d" % (i, n)]) for i in range(n)], timeout=1500)
    finally:
        os.unlink(path)
    viol, infra, ev, di, samples = enumcheck.collect("C02", res, "h_codec", "plain-asan", accept_props={"C02"})
    types = sorted({int(n.split("(type ")[1].rstrip(")")) for n, _ in imgs if "(type " in n})
    rule = ("evaluations = images + derived images decoded; distinct = reference images that re-encode byte-exactly and were then "
            "swept; derived images that no longer decode completely or change their encoded length are filtered out as the property states")
    return enumcheck.finish("C02", tier, seed, t0, viol, infra, ev, di, samples, rule, ASSUME,
                            extra={"reference_images": len(imgs), "reference_types": len(types)})
