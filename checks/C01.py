"""C01 - write-then-read returns the same objects, in order, for every configuration.

(a) every object of the universe U alone, (b) all sequences of length 0..2 (3 on a sub-grid) over a 14-object
alphabet (fixed size, the three padding residues, remainder member, LinMessage2 v1/v2/v3, the three serial-event
variants, an object of five containers, an empty payload, a restore-point container), written through File and
read back through File for compression levels 0..9 x 18 container sizes x restore points on/off; every session
runs under the deterministic scheduler's default schedule.  Oracle: class, type code and every field of each object
read back that is part of its value (serialised by this variant according to the encoder's layout map, plus the layout
selectors apiMajor / *_present) equal the ORIGINAL object as it was after write()'s pre-processing; then null, eof(), !good().
The codec-level round trip itself (decode(encode(x)) preserves every serialised field; every field is serialised
by some object) is checked on all of U."""
import time

import driver
from checks import enumcheck, filecheck as F

ASSUME = [
    "scalar values outside the four fill patterns are not enumerated: the codecs copy non-selector scalars opaquely; every selector "
    "the code branches on is enumerated explicitly (harness/universe.h)",
    "the single default schedule per session (interleavings are C07's business)",
    "fields that no variant serialises (in-memory selectors apiMajor / *_present) are exempt from the round-trip comparison",
]


def main(argv):
    tier, seed, rp = driver.tier_and_seed(argv)
    if rp:
        return enumcheck.replay(rp)
    t0 = time.time()
    quick = tier == "quick"
    exe, tables = F.harness("sched")
    cexe, _ = enumcheck.reflect_harness("h_codec", "plain")
    jobs = []
    jobs += [(cexe, ["mode=frame", "shard=%d/8" % i, "big=1"]) for i in range(8)]
    # (a) universe alone
    ua = [([0], [64], [0]), ([6], [0x20000], [1]), ([1], [0x400000], [0]), ([9], [33], [1])]
    if not quick:
        ua = [([l], [c], [r]) for l in F.ALL_LEVELS for c in (64, 0x20000, 0x400000) for r in (0, 1)]
    for lv, ct, rpv in ua:
        # the large payload lengths (64 KiB .. 640 KiB) only with containers of at least 128 KiB: with tiny containers one such
        # object means ten thousand containers
        big = (not quick) and ct[0] >= 0x20000
        jobs += F.jobs(exe, ["set=universe"] + F.cfg(lv, ct, rpv) + (["big=1"] if big else []), 4)
    # (a') a slice of U under the full configuration product
    jobs += F.jobs(exe, ["set=universe", "slice=%d" % (149 if quick else 37)] + F.cfg(F.ALL_LEVELS, F.ALL_CONTS), 16)
    # (b) sequences
    jobs += F.jobs(exe, ["set=alpha", "maxlen=2"] + F.cfg(F.ALL_LEVELS if not quick else [0, 1, 6, 9], F.ALL_CONTS), 48)
    jobs += F.jobs(exe, ["set=alpha", "maxlen=3"] + F.cfg([0, 6], [3, 32, 49, 100, 0x20000, 0x400000] if not quick else [49, 0x20000], [0, 1] if not quick else [0]), 48)
    res = enumcheck.run_jobs(jobs, timeout=1500)
    viol, infra, ev, di, samples = enumcheck.collect("C01", res, "h_file", "sched", accept_props={"C01", "C06", "C10", "C12", "C13"})
    rule = ("one evaluation = one write session + one read session through File (or one codec-level round trip for the frame mode); "
            "distinct = distinct files written (FNV of the bytes) + distinct encodings")
    return enumcheck.finish("C01", tier, seed, t0, viol, infra, ev, di, samples, rule, ASSUME,
                            extra={"levels": F.ALL_LEVELS, "container_sizes": F.ALL_CONTS, "classes": len(tables["classes"])})
