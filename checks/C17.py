"""C17 - type codes agree between constructors, the object factory and files.

Exhaustive over all codes 0..255 plus boundary 32-bit codes (factory: null exactly for unassigned codes, else the
class File.h's include list assigns), and over every class: default construction by placement into blocks
pre-filled with {00,ff,aa,55} (all reflected fields and the encoding identical), constructor code maps back to
the class, written under that code and read back as the same class and code (codec level, consuming exactly the bytes
written, and through File: every default-constructed object alone in a file at levels 0/6, containers 64 / 128 KiB)."""
import time

import driver
from checks import enumcheck

ASSUME = [
    "expected class per code = the '// NAME = code' comments of File.h's include list, cross-checked with the ObjectType enum",
    "field values are compared through the generated reflection (every data member of every class)",
]


def main(argv):
    tier, seed, rp = driver.tier_and_seed(argv)
    if rp:
        return enumcheck.replay(rp)
    t0 = time.time()
    jobs = []
    for variant in (("plain-asan",) if tier == "quick" else ("plain-asan", "plain")):
        exe, tables = enumcheck.reflect_harness("h_codec", variant)
        for i in range(8):
            jobs.append((exe, ["mode=c17", "shard=%d/8" % i]))
    res = enumcheck.run_jobs(jobs, timeout=600)
    viol, infra, ev, di, samples = enumcheck.collect("C17", res, "h_codec", "plain-asan", accept_props={"C17"})
    # frame mode also reports factory disagreements seen while decoding U (tagged C17)
    exe, tables = enumcheck.reflect_harness("h_codec", "plain")
    res2 = enumcheck.run_jobs([(exe, ["mode=frame", "shard=%d/8" % i]) for i in range(8)], timeout=600)
    v2, i2, ev2, di2, s2 = enumcheck.collect("C17", res2, "h_codec", "plain", accept_props={"C17"})
    # through the file API: every default-constructed object written alone (and between two CAN messages is C01's business)
    # into a file and read back as the same class and code
    from checks import filecheck as F
    fexe, _ = F.harness("sched")
    js3, raw3 = F.run_raw(F.jobs(fexe, ["set=defaults", "readback=1"] + F.cfg([0, 6], [64, 0x20000], (0,), (0,)), 4), timeout=600)
    v3, i3, ev3, di3, s3 = enumcheck.collect("C17", js3, "h_file", "sched", accept_props={"C17", "C01", "C06", "C10"})
    v2, i2, ev2, di2 = v2 + v3, i2 + i3, ev2 + ev3, di2 + di3
    rule = ("evaluations = factory calls (one per code) + placement constructions (4 poison patterns per class) + objects of U whose "
            "emitted type code is fed back to the factory; distinct = codes + classes + distinct encodings")
    samples = ["createObject(0..255, 256, 0xffff, 0x10000, 0x7fffffff, 0x80000000, 0xfffffffe, 0xffffffff, ...)"] + samples[:3]
    return enumcheck.finish("C17", tier, seed, t0, viol + v2, infra + i2, ev + ev2, di + di2, samples, rule, ASSUME,
                            extra={"classes": len(tables["classes"]), "codes_assigned": sum(len(v) for v in [[x for x in tables["fileh"]]])})
