"""C06 - no API call blocks forever: deadlock / livelock freedom of the three-stage pipeline.

Exhaustive, deviation-bounded exploration of all interleavings of the application thread and the
two worker threads of whole File sessions (real code, deterministic scheduler), over a grid of
size relations, plus the exhaustive static-priority / single-change family on long sessions."""
from checks import schedcheck, sessions as S

ASSUME = [
    "scheduling points at mutex lock, condition wait, thread create/join/exit and atomic accesses suffice "
    "(no unsynchronised shared accesses: checked by C11's ThreadSanitizer pass)",
    "sequentially consistent memory; spurious condition-variable wake-ups are not modelled (the library only uses predicate waits)",
    "sizes are scaled down (buffer 16..128 bytes): every wait predicate is a linear comparison of positions and sizes, "
    "so each below/at/above relation of the real sizes has a scaled representative",
]


def stages(tier):
    quick = tier == "quick"
    st = []
    st.append(dict(label="A: bound 0, full size/early-close/ending grid", harness="h_session", variant="sched",
                   configs=S.grid_stage_a(), share=0.35,
                   what="b in {16,48,64,128} x c in {b/2,b-1,b,b+1,2b,4b} x q in {1,2,3,10} x object-size sequences "
                        "(all of length<=2 over {48,b,b+c,2(b+c),4(b+c)} + six longer) x read/write x close after k for every k "
                        "x endings {close,destroy,double close}; default (non-preemptive) schedule: a size-dependent circular "
                        "wait deadlocks under every schedule"))
    st.append(dict(label="B: bound 1, n<=3", harness="h_session", variant="sched",
                   configs=S.grid_small(1, bs=(64,), qs=(1, 2, 10) if not quick else (1, 10), nmax=3, endings=("close", "destroy")) +
                           ([] if quick else S.grid_small(1, bs=(16,), cs=(8, 15, 16, 17, 64), qs=(1, 3), nmax=2, endings=("close",))),
                   share=0.3, what="every single deviation from the default schedule"))
    if quick:
        c = (S.grid_small(2, bs=(64,), cs=(32, 64, 256), qs=(1,), nmax=2, endings=("close",)) +
             S.grid_small(2, bs=(64,), cs=(65,), qs=(2,), nmax=2, endings=("close",), sizes=[48, 65]))
    else:
        c = (S.grid_small(2, bs=(64,), qs=(1, 2, 10), nmax=3, endings=("close", "destroy")) +
             S.grid_small(2, bs=(16,), cs=(8, 16, 17, 64), qs=(1, 3), nmax=2, endings=("close",)))
    # abandoning a read session while the decoder waits on a full queue: q+2 objects, all data already inflated
    full_queue = []
    for q in (1, 2):
        n = q + 2
        for early in range(0, n):
            for ending in ("close", "destroy"):
                full_queue.append(S.cfg("r", [48] * n, 256, 256, q, early, ending, bound=2))
    c = c + full_queue
    st.append(dict(label="C: bound 2", harness="h_session", variant="sched", configs=c, share=0.6, chunk=2,
                   what="every pair of deviations; includes early close with the decoder blocked on the full queue (q+2 objects)"))
    st.append(dict(label="S: stream stage alone, deviation bound 2 and preemption bound 2", harness="h_stream", variant="sched",
                   configs=S.stream_grid(2, 0) + ([] if quick else S.stream_grid(2, 1) + S.stream_grid(3, 0, 18)), share=0.3, reserve=18,
                   what="bare UncompressedFile, producer (raw writes of w bytes / appended containers of w bytes, then setFileSize) and consumer "
                        "(reads of r bytes + dropOldData) for all (w,r,b,c) in {1..6}^4: every ordering of the four sizes"))
    if not quick:
        st.append(dict(label="D: bound 3, smallest sessions", harness="h_session", variant="sched", chunk=1,
                       configs=S.grid_small(3, bs=(64,), cs=(32, 64), qs=(1,), nmax=1, endings=("close",), sizes=[48]) +
                               S.grid_small(3, bs=(64,), cs=(64,), qs=(1,), nmax=2, endings=("close",), sizes=[48], earlies=False),
                       share=0.5))
    # long sessions at the real default sizes: exhaustive static-priority family with one priority change
    stride = 512 if quick else 8
    big = []
    for mode in "rw":
        for objs, q in (([48] * 200, 10), ([48] * 40 + [300000] + [48] * 40, 10), ([70000] * 12, 3)):
            for sh in range(8):
                big.append(S.cfg(mode, objs, 0, 0x20000, q, -1, "close", static=1, bound=1, maxfree=stride,
                                 shard="%d/8" % sh, horizon=4000000, inv=1))
    st.append(dict(label="E: long sessions, static priorities + one change", harness="h_session", variant="sched",
                   configs=big, share=0.5, chunk=1, reserve=12,
                   what="200-object / large-object sessions at the default buffer (128 KiB) and container size: all 6 priority orders "
                        "of (application, codec thread, compression thread) and, for each, a switch to each other order at every "
                        "%d-th scheduling point" % stride))
    return st


def main(argv):
    return schedcheck.run_stages("C06", argv, stages, assumptions=ASSUME, budget={"quick": 125.0, "thorough": 1500.0})
