"""Shared runner for checks decided by schedule exploration of the real code (engine E1)."""
import json
import time

import driver


def run_stages(prop, argv, stages_for_tier, level="model_checking", assumptions=(), rule="", budget=None, extra=None, replay_extra=None):
    """stages_for_tier(tier) -> list of dict(label, harness, variant, configs, common=[], share=float, env=None)
    `share` is the fraction of the tier's wall budget the stage may use at most."""
    tier, seed, replay = driver.tier_and_seed(argv)
    if replay:
        if replay_extra:
            rc = replay_extra(replay)
            if rc is not None:
                return rc
        return driver.replay_sched(replay)
    t0 = time.time()
    budget = budget or {"quick": 110.0, "thorough": 1500.0}
    total = budget.get(tier, 110.0)
    stages = stages_for_tier(tier)
    violations, infra = [], []
    cov_stages = []
    tot = {"executions": 0, "points": 0, "choices": 0, "traces": 0, "configs": 0, "skipped": 0, "incomplete": 0}
    samples = []
    exhaustive = True
    extra_cov = None
    if extra:
        ev, ei, extra_cov = extra(tier, total * 0.3)
        violations.extend(ev)
        infra.extend(ei)
        tot["traces"] += extra_cov.get("states", 0)
        tot["points"] += extra_cov.get("transitions", 0)
        tot["executions"] += extra_cov.get("transitions", 0)
        if not extra_cov.get("exhaustive", True):
            exhaustive = False
    for si, st in enumerate(stages):
        exe = driver.harness(st["harness"], st["variant"])
        left = total - (time.time() - t0)
        later = sum(x.get("reserve", 0) for x in stages[si + 1:])
        dl = max(5.0, min(left - later, total * st.get("share", 1.0)))
        ts = time.time()
        res = driver.run_configs(exe, st["configs"], common=st.get("common", []), deadline_s=dl,
                                 env=st.get("env"), order_seed=seed, chunk=st.get("chunk"))
        agg = driver.summarise(res)
        for r in agg["violations"]:
            violations.append(driver.sched_violation(prop, r, st["variant"], st["harness"]))
        infra.extend(agg["infra"])
        if st.get("post"):
            violations.extend(st["post"](res))
        tot["executions"] += agg["executions"]
        tot["points"] += agg["points"]
        tot["choices"] += agg["choices"]
        tot["traces"] += agg["distinct_traces"]
        tot["configs"] += agg["configs"]
        tot["skipped"] += agg["skipped"]
        tot["incomplete"] += agg["configs_incomplete"]
        if agg["skipped"] or agg["configs_incomplete"]:
            exhaustive = False
        cov_stages.append({"stage": st["label"], "harness": st["harness"], "variant": st["variant"],
                           "configurations": agg["configs"], "skipped_by_deadline": agg["skipped"],
                           "cut_short_by_deadline": agg["configs_incomplete"], "executions": agg["executions"],
                           "scheduling_points": agg["points"], "distinct_traces": agg["distinct_traces"],
                           "bounds_completed": agg["bounds_completed"],
                           "max_distinct_outcomes_in_one_configuration": agg["max_outcomes_per_config"],
                           "wall_s": round(time.time() - ts, 2), "what": st.get("what", "")})
        for s in agg["samples"][:2]:
            if len(samples) < 8:
                samples.append(dict(s, stage=st["label"]))
    coverage = {
        "states": tot["traces"],
        "transitions": tot["points"],
        "traces_validated_against_impl": tot["executions"],
        "evaluations": tot["executions"],
        "distinct_nontrivial": tot["traces"],
        "rule": rule or ("every execution runs the real library code under the deterministic scheduler; "
                         "states = distinct schedule traces (hash of the (thread, operation, object) sequence) summed over "
                         "configurations; transitions = scheduling points executed; a configuration is non-trivial when it "
                         "executes at least one schedule to completion"),
        "samples": samples or [{"note": "no configuration produced a sample"}],
        "configurations": tot["configs"],
        "configurations_skipped_by_deadline": tot["skipped"],
        "configurations_cut_short": tot["incomplete"],
        "exhaustive": exhaustive,
        "stages": cov_stages,
    }
    if extra_cov is not None:
        coverage[extra_cov.pop("_key", "sequential_part")] = extra_cov
    return driver.finish(prop, tier, seed, level, coverage, t0, violations, list(assumptions), infra)
