"""C14 - output bytes are a deterministic function of objects and configuration.

(1) the sequence grid and all of U written through File in processes whose heap is pre-filled (and re-poisoned on
free) with {none, 00, ff, aa, 55}: file bytes must be identical across patterns; (2) every session written twice in
one process with other sessions in between, and again in processes that run the configurations in reverse order and in a
different split (different earlier activity): identical; (3) across schedules: C07 compares the written file with the
reference assembly under every explored schedule; (4) encodings of all of U and of default-constructed objects in
builds with stack variables auto-initialised to zero vs to a pattern (clang -ftrivial-auto-var-init) and in the g++
build: identical; (5) bytes that come from neither a member nor a container (alignment padding, union filler) are
zero in every encoding of U."""
import time

import driver
from checks import enumcheck, filecheck as F

ASSUME = [
    "heap poisoning through the harness' replaced operator new/delete (fresh blocks filled, freed blocks re-filled)",
    "uninitialised stack temporaries are covered by the zero- vs pattern-initialising clang builds (thorough tier and quick tier)",
]


def compare(runs, what, prop="C14"):
    """runs: dict name -> {label: (fnv,size)}; all must agree"""
    viol = []
    names = sorted(runs)
    base = runs[names[0]]
    seen = set()
    for n in names[1:]:
        other = runs[n]
        for lab, v in base.items():
            if lab in other and other[lab] != v:
                tag = lab.split(" lv=")[0].split(" fill=")[0]
                k = "%s|%s" % (what, tag)
                if k in seen:
                    continue
                seen.add(k)
                viol.append({"key": k, "what": "%s: %s gives %s/%s bytes but %s gives %s/%s [%s]" % (what, names[0], v[0], v[1], n, other[lab][0], other[lab][1], lab),
                             "replay": {"property": prop, "what": what, "label": lab, "runs": [names[0], n]}})
        if len(other) != len(base):
            viol.append({"key": what + "|coverage", "what": "%s: runs enumerated different sets (%d vs %d)" % (what, len(base), len(other)),
                         "replay": {"property": prop, "what": what}})
    return viol


def main(argv):
    tier, seed, rp = driver.tier_and_seed(argv)
    if rp:
        return enumcheck.replay(rp)
    t0 = time.time()
    quick = tier == "quick"
    exe, tables = F.harness("sched")
    viol, infra = [], []
    ev = di = 0
    samples = []
    # (1) heap poison patterns, (2) twice
    poison = {"none": -1, "00": 0, "ff": 255, "aa": 170, "55": 85}
    cfgs = F.cfg([0, 6] if quick else [0, 1, 6, 9], [1, 33, 48, 0x20000] if quick else [1, 3, 33, 48, 100, 0x20000, 0x400000], (0, 1), (0, 4))
    ucfg = F.cfg([0, 6], [64], (1,), (0,))
    runs = {}
    for name, pv in poison.items():
        jobs = F.jobs(exe, ["set=alpha", "maxlen=2", "readback=0", "poison=%d" % pv] + cfgs + (["twice=1"] if name in ("none", "aa") else []), 8 if quick else 16)
        jobs += F.jobs(exe, ["set=universe", "readback=0", "poison=%d" % pv] + ucfg, 4)
        js, raw = F.run_raw(jobs, timeout=1500)
        v, i, e, d, s = enumcheck.collect("C14", js, "h_file", "sched", accept_props={"C14", "C06", "C10"})
        viol += v
        infra += i
        ev += e
        di += d
        samples = samples or s
        runs["heap=" + name] = F.fhashes(raw)
    # (2b) the same sessions in processes that enumerate the configurations in reverse order (and in a different split),
    # so each session follows different earlier sessions: process-wide state that survives a session shows here
    jobs = F.jobs(exe, ["set=alpha", "maxlen=2", "readback=0", "poison=-1", "order=rev"] + cfgs, 5 if quick else 11)
    jobs += F.jobs(exe, ["set=universe", "readback=0", "poison=-1", "order=rev"] + ucfg, 3)
    js, raw = F.run_raw(jobs, timeout=1500)
    v, i, e, d, s = enumcheck.collect("C14", js, "h_file", "sched", accept_props={"C14", "C06", "C10"})
    viol += v
    infra += i
    ev += e
    di += d
    runs["order=reversed"] = F.fhashes(raw)
    viol += compare(runs, "file bytes depend on previous heap contents or on earlier sessions in the process")
    # (4) stack auto-init builds + g++ build, codec level
    enc = {}
    for variant in ("plain", "plain-init0", "plain-initpat"):
        cexe, _ = enumcheck.reflect_harness("h_codec", variant)
        js, raw = F.run_raw([(cexe, ["mode=enc", "shard=%d/8" % k]) for k in range(8)], timeout=900)
        v, i, e, d, s = enumcheck.collect("C14", js, "h_codec", variant, accept_props={"C14"})
        infra += i
        ev += e
        enc["build=" + variant] = {l.rsplit(" ", 2)[0][2:]: tuple(l.rsplit(" ", 2)[1:]) for l in raw if l.startswith("E ")}
    viol += compare(enc, "encoding depends on uninitialised stack memory / compiler")
    # (5) filler bytes zero (frame mode, tagged C14)
    cexe, _ = enumcheck.reflect_harness("h_codec", "plain")
    js = enumcheck.run_jobs([(cexe, ["mode=frame", "shard=%d/8" % k]) for k in range(8)], timeout=900)
    v, i, e, d, s = enumcheck.collect("C14", js, "h_codec", "plain", accept_props={"C14"})
    viol += v
    infra += i
    ev += e
    di += d
    # (3) schedules: write sessions whose stream ends exactly on / off a container boundary, every single deviation (and pairs, thorough)
    from checks import sessions as S
    sexe = driver.harness("h_session", "sched")
    scfgs = []
    for b in (1, 2) if not quick else (1,):
        for c in (16, 32, 48, 64, 96):
            # 49 / 98 / 127: objects followed by alignment padding (zero bytes that no member supplies), several per container or
            # spanning containers, so that padding lands in containers the stage allocated (or recycled) at different times
            for objs in ([48], [96], [48, 48], [48, 96], [96, 96, 48], [49, 49], [49, 98, 49], [127, 49], [49, 49, 49, 49]):
                for lv in (0, 6):
                    for rpv in (0, 1):
                        if b == 2 and (len(objs) > 2 or lv):
                            continue
                        scfgs.append(S.cfg("w", objs, 64, c, 2, -1, "close", lv, rpv, bound=b, single=1))
    sres = driver.run_configs(sexe, scfgs, deadline_s=40 if quick else 600)
    agg = driver.summarise(sres)
    for r in agg["violations"]:
        viol.append(driver.sched_violation("C14", r, "sched", "h_session"))
    infra += agg["infra"]
    ev += agg["executions"]
    di += agg["distinct_traces"]
    rule = ("evaluations = write sessions (per heap pattern, plus the repeated ones) + encodings per build; distinct = distinct files / encodings; "
            "every (objects, configuration) pair is required to give byte-identical output in all runs")
    sched_exhaustive = not agg.get("skipped") and not agg.get("configs_incomplete", 0)
    return enumcheck.finish("C14", tier, seed, t0, viol, infra, ev, di, samples, rule, ASSUME, exhaustive=sched_exhaustive,
                            extra={"write_session_configurations_skipped_by_deadline": agg.get("skipped", 0),
                                   "heap_patterns": sorted(poison), "sessions_compared_across_patterns": len(runs["heap=none"]),
                                   "encodings_compared_across_builds": len(enc["build=plain"]),
                                   "write_session_schedules_explored": agg["executions"], "write_session_configurations": agg["configs"]})
