"""C08 - a file cut off at any byte reads as an unmodified prefix of its objects.

Every truncation offset 0..size of files (reference assembly, shown byte-identical to what File writes by C01/C04/C07)
for compression levels {0,1,6,9} x container sizes {32,100,default} (objects span containers) x final / initial
(all-zero statistics) header x static priority orders of the three threads; each prefix is opened, read to the end and
closed through File under the deterministic scheduler in the ASan+UBSan build.  Oracle from the container layout:
delivered objects are exactly those whose declared size lies in completely stored containers (a container is completely
stored when its objectSize bytes are; the alignment bytes behind a container or an object belong to neither), each
unmodified and in order; then null; close() returns; open() throws the library's
exception only while the 144-byte header is incomplete; the count is monotone in the offset."""
import time

import driver
from checks import enumcheck, filecheck as F

# note: F.run_raw keeps the harness' 'T <seed> <header> <order> <offset> <objects>' lines

ASSUME = [
    "the truncated files are prefixes of the reference assembly of the seed objects, which C01/C04/C07 show to be byte-identical to "
    "the library's own output for the same objects and configuration",
    "open() may either throw or succeed while the header is incomplete (the property allows both)",
]


def main(argv):
    tier, seed, rp = driver.tier_and_seed(argv)
    if rp:
        return enumcheck.replay(rp)
    t0 = time.time()
    quick = tier == "quick"
    exe, _ = enumcheck.reflect_harness("h_fault", "sched-asan")
    orders = (-1, 0, 1, 2, 3, 4, 5)
    jobs = []
    for s in (0, 1):
        for lv in ((0, 1, 6, 9) if (s == 0 or not quick) else (0, 6)):
            for c in ((32, 100, 0x20000) if (s == 0 or not quick) else (32, 0x20000)):
                for ih in (0, 1):
                    for o in orders:
                        for sh in range(2):
                            jobs.append((exe, ["mode=trunc", "seed=%d" % s, "level=%d" % lv, "cont=%d" % c, "initialheader=%d" % ih, "order=%d" % o, "shard=%d/2" % sh]))
    js, raw = F.run_raw(jobs, timeout=1500)
    viol, infra, ev, di, samples = enumcheck.collect("C08", js, "h_fault", "sched-asan", accept_props={"C08"})
    # monotonicity across offsets (the shards of one file are merged here)
    series = {}
    for l in raw:
        if not l.startswith("T "):
            continue
        _, name, hk, order, t, n = l.split(" ")
        series.setdefault((name, hk, order), []).append((int(t), int(n)))
    for key, pts in series.items():
        pts.sort()
        best = -1
        for t, n in pts:
            if n < best:
                k = "monotone|%s|%s" % (key[0], key[1])
                viol.append({"key": k, "what": "a longer prefix yields fewer objects: %d objects at offset %d, %d at a shorter offset (%s %s header, order %s)"
                                             % (n, t, best, key[0], key[1], key[2]),
                             "replay": {"property": "C08", "seed": key[0], "header": key[1], "order": key[2], "offset": t}})
                break
            best = max(best, n)
    rule = ("one evaluation = one prefix of a seed file opened, read to the end and closed through File; distinct = evaluations "
            "(every offset is a different input)")
    return enumcheck.finish("C08", tier, seed, t0, viol, infra, ev, di, samples, rule, ASSUME, level="fault_enumeration",
                            extra={"priority_orders": list(orders)})
