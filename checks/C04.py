"""C04 - finished files decode with an independent implementation of the container format.

Files written through File for the sequence x configuration grid are parsed by engine/blfpy/decoder.py (struct + zlib
only): 144-byte header, only type-10 objects, headerSize 16 / version 1, objectSize = 32 + stored payload, method 0
iff level 0 else 2 with a valid zlib header whose FLEVEL class matches the level, inflate to exactly the declared
size, no container payload above the configured size, objectSize % 4 zero bytes between containers, the file ends with
the last container, and the concatenated payload equals the concatenation of the objects' encodings."""
import glob
import json
import os
import time
from concurrent.futures import ProcessPoolExecutor

import driver
from checks import enumcheck, filecheck as F
import decoder

ASSUME = [
    "'4-byte alignment between containers' is read as the format's padding rule (objectSize % 4 zero bytes after each container), "
    "which is what Vector's files and other BLF readers use",
    "a trailing empty container (written when the stream ends exactly on a container boundary, and as the restore-point trailer) is well formed",
    "the objects' encodings are the codecs' own (their framing is C03's business)",
]


def verify_file(m):
    """returns list of (key, what) problems for one manifest entry"""
    out = []
    try:
        b = open(m["file"], "rb").read()
        want = open(m["file"] + ".stream", "rb").read()
    except OSError as e:
        return [("io", "cannot read %s: %s" % (m["file"], e))]
    tag = m["label"].split(" lv=")[0]
    try:
        decoder.parse_header(b)
        cs, end = decoder.containers(b, strict=True)
    except decoder.FormatError as e:
        return [("format|" + tag, str(e))]
    if end != len(b):
        out.append(("trailing|" + tag, "%d bytes after the last container" % (len(b) - end)))
    for i, c in enumerate(cs):
        if m["level"] == 0 and c["method"] != 0:
            out.append(("method|" + tag, "container %d: method %d at level 0" % (i, c["method"])))
        if m["level"] != 0:
            if c["method"] != 2:
                out.append(("method|" + tag, "container %d: method %d at level %d" % (i, c["method"], m["level"])))
            elif c["zlib_class"] is None:
                out.append(("zlibhdr|" + tag, "container %d: invalid zlib header" % i))
            elif c["zlib_class"] != decoder.expected_level_class(m["level"]):
                out.append(("zliblevel|lv%d" % m["level"], "container %d: zlib FLEVEL class %d does not match level %d" % (i, c["zlib_class"], m["level"])))
        if c["uncompressedSize"] > m["cont"]:
            out.append(("toolarge|" + tag, "container %d holds %d bytes, configured size %d" % (i, c["uncompressedSize"], m["cont"])))
        if any(c["padbytes"]) or len(c["padbytes"]) != c["pad"]:
            out.append(("padding|" + tag, "container %d: padding after it is not %d zero bytes" % (i, c["pad"])))
        if c["reserved"] != (0, 0, 0):
            out.append(("reserved|" + tag, "container %d: reserved header fields not zero" % i))
    got = b"".join(c["data"] for c in cs)
    if got != want:
        d = next((i for i in range(min(len(got), len(want))) if got[i] != want[i]), min(len(got), len(want)))
        out.append(("payload|" + tag, "concatenated payload differs from the objects' encodings at offset %d (%d vs %d bytes)" % (d, len(got), len(want))))
    return out


def verify_dir(d):
    entries = F.read_manifests(os.path.join(d, "manifest.*.jsonl"))
    viol = []
    with ProcessPoolExecutor(driver.NCPU) as ex:
        for m, probs in zip(entries, ex.map(verify_file, entries, chunksize=64)):
            for key, what in probs:
                viol.append((key, what, m))
    return entries, viol


def grid_jobs(exe, d, quick, hps=(0,)):
    jobs = []
    base = ["keep=" + d, "readback=0"]
    jobs += F.jobs(exe, base + ["set=alpha", "maxlen=1"] + F.cfg(F.ALL_LEVELS, F.ALL_CONTS, (0, 1), hps), 16)
    jobs += F.jobs(exe, base + ["set=alpha", "maxlen=2"] + F.cfg([0, 6] if quick else [0, 1, 5, 6, 9], [1, 33, 48, 100, 0x20000] if quick else F.ALL_CONTS, (0, 1), hps[:1]), 32)
    # the same sessions after different earlier sessions in the process (configurations in reverse order: larger containers
    # first): a configuration value that survives a session shows as containers larger than configured
    jobs += F.jobs(exe, base + ["set=alpha", "maxlen=1", "order=rev"] + F.cfg([0, 6] if quick else [0, 1, 6, 9], F.ALL_CONTS, (0, 1), hps[:1]), 8)
    if not quick:
        jobs += F.jobs(exe, base + ["set=universe", "slice=7"] + F.cfg([0, 6], [64, 0x20000], (0,), hps[:1]), 8)
    return jobs


def main(argv, prop="C04"):
    tier, seed, rp = driver.tier_and_seed(argv)
    if rp:
        return enumcheck.replay(rp)
    t0 = time.time()
    quick = tier == "quick"
    exe, tables = F.harness("sched")
    d = F.tmpdir()
    try:
        jobs = grid_jobs(exe, d, quick)
        # shards must not collide on file names: one sub-directory per job
        fixed = []
        for i, (e, a) in enumerate(jobs):
            sub = os.path.join(d, "j%d" % i)
            os.makedirs(sub)
            fixed.append((e, [x if not x.startswith("keep=") else "keep=" + sub for x in a]))
        res = enumcheck.run_jobs(fixed, timeout=1500)
        viol, infra, ev, di, samples = enumcheck.collect(prop, res, "h_file", "sched", accept_props={"C04", "C06", "C10"})
        entries, pv = [], []
        for sub in sorted(glob.glob(os.path.join(d, "j*"))):
            e2, v2 = verify_dir(sub)
            entries += e2
            pv += v2
        seen = set()
        for key, what, m in pv:
            k = "pydecoder|" + key
            if k in seen:
                continue
            seen.add(k)
            viol.append({"key": k, "what": "%s [%s]" % (what, m["label"]),
                         "replay": {"property": prop, "harness": "h_file", "variant": "sched", "label": m["label"], "what": what}})
        samples = [m["label"] for m in entries[:: max(1, len(entries) // 5)]][:5]
    finally:
        F.rmtree(d)
    rule = ("one evaluation = one file written through File and parsed by the independent Python decoder; distinct = distinct file contents")
    return enumcheck.finish(prop, tier, seed, t0, viol, infra, len(entries), di, samples, rule, ASSUME,
                            extra={"files_decoded_independently": len(entries)})
