"""C07 - results are independent of thread interleaving.

Read sessions: the delivered objects are compared (re-encoded, byte by byte) with the objects the
input file was assembled from, in order, each once, null only after the last; the observation must be
the same in every explored schedule.  Write sessions: the bytes on disk must equal the reference
assembly (blfasm.h) and therefore be identical in every schedule."""
from checks import schedcheck, sessions as S

ASSUME = [
    "scheduling points at synchronisation operations suffice (no unsynchronised shared accesses: C11); stage P adds points right "
    "after every release so that data published before it is written shows as a wrong result here as well",
    "sequential consistency; no spurious wake-ups",
    "the read-session input is assembled by harness/blfasm.h (reference assembler) from the codecs' own encodings of the objects",
]


def full_sessions(bound, bs, cs_of, qs, nmax, levels=(0,), rps=(0,), sizes=None, modes="rw"):
    out = []
    for b in bs:
        for c in cs_of(b):
            alpha = sizes or [48, S.norm(b + c)]
            for q in qs:
                for objs in S.seqs(alpha, nmax):
                    if not objs:
                        continue
                    for mode in modes:
                        for lv in levels:
                            for rp in (rps if mode == "w" else (0,)):
                                out.append(S.cfg(mode, objs, b, c, q, -1, "close", lv, rp, bound=bound, single=1, extra=1))
    return out


def stages(tier):
    quick = tier == "quick"
    st = []
    st.append(dict(label="A: complete sessions of 1-4 objects, bound 1", harness="h_session", variant="sched",
                   configs=full_sessions(1, (64,), S.containers, (1, 2, 10), 3, levels=(0, 6), rps=(0, 1)) +
                           full_sessions(1, (64,), lambda b: (32, 64, 200), (2,), 4, sizes=[48]) +
                           full_sessions(1, (16, 128), S.containers, (1, 3), 2),
                   share=0.35, what="read-all and write-all sessions; tiny buffers so that every stage blocks; compression levels 0 and 6; "
                                    "restore-point trailer on/off; every single deviation from the default schedule"))
    # the window between a release and the thread's next synchronisation operation: a stage that publishes a position and
    # fills in the bytes after unlocking is only visible when the other thread can run right after the release
    pr = [x + " postrelease=1" for x in full_sessions(1, (64,), lambda b: (32, 64, 65, 256), (1, 2), 2 if quick else 3, levels=(0,), rps=(0,))]
    st.append(dict(label="P: complete sessions, bound 1, scheduling points also right after every unlock / wait return", harness="h_session",
                   variant="sched", configs=pr, share=0.15))
    if quick:
        c = full_sessions(2, (64,), lambda b: (32, 64, 65, 256), (1, 2), 2)
    else:
        c = (full_sessions(2, (64,), S.containers, (1, 2, 10), 3, levels=(0, 6), rps=(0, 1)) +
             full_sessions(2, (16,), lambda b: (8, 16, 17, 64), (1, 3), 2))
    st.append(dict(label="B: complete sessions, bound 2", harness="h_session", variant="sched", configs=c, share=0.6, chunk=2,
                   what="every pair of deviations"))
    st.append(dict(label="S: stream stage alone, deviation bound 2 and preemption bound 2", harness="h_stream", variant="sched",
                   configs=S.stream_grid(2, 0) + S.stream_grid(2, 1) + ([] if quick else S.stream_grid(3, 0, 18)), share=0.3,
                   what="bare UncompressedFile between a producer and a consumer for all (w,r,b,c) in {1..6}^4: the consumer must receive exactly the "
                        "bytes written, in order, and end of stream only after the last"))
    if not quick:
        st.append(dict(label="C: bound 3 on the smallest sessions", harness="h_session", variant="sched", chunk=1,
                       configs=full_sessions(3, (64,), lambda b: (32, 64), (1,), 1, sizes=[48]) +
                               full_sessions(3, (64,), lambda b: (64,), (1, 2), 2, sizes=[48]), share=0.5))
    stride = 256 if quick else 8
    big = []
    for mode in "rw":
        for objs, q, lv in (([48] * 300, 10, 0), ([48] * 100 + [300000] + [48] * 100, 10, 1), ([70000] * 10 + [48] * 50, 3, 0)):
            for sh in range(8):
                big.append(S.cfg(mode, objs, 0, 0x20000, q, -1, "close", lv, 1 if mode == "w" else 0, static=1, bound=1, maxfree=stride,
                                 shard="%d/8" % sh, horizon=6000000, single=1))
    st.append(dict(label="D: sessions of hundreds of objects, static priorities + one change", harness="h_session", variant="sched",
                   configs=big, share=0.5, chunk=1,
                   what="default buffer and container sizes; all 6 priority orders and a switch to each other order at every %d-th point" % stride))
    return st


def main(argv):
    return schedcheck.run_stages("C07", argv, stages, assumptions=ASSUME, budget={"quick": 160.0, "thorough": 1500.0})
