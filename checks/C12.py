"""C12 - buffered data stays bounded no matter how long the file is.

(1) Invariant at every scheduling point of every explored schedule of small sessions: bytes held in
    decoded containers <= buffer + 3 containers + largest object, queue length <= capacity, no allocation
    request above the cap.
(2) Growth in N: sessions over files of N containers under the exhaustive static-priority family
    (the consumer-stalls / producer-bursts extremes are the orders with the application lowest / highest)
    and one priority change; peak container bytes and peak live heap must not grow with N."""
import json

from checks import schedcheck, sessions as S

ASSUME = [
    "live heap is what the harness' replaced operator new/delete account (malloc_usable_size); zlib's internal malloc is outside",
    "scaled-down sizes for part (1); real sizes (4 KiB / 64 KiB / 1 MiB containers, default 128 KiB buffer) for part (2)",
]


def growth_configs(quick):
    """N is chosen beyond saturation (the whole pipeline - buffer, queue, a few containers - is full), so that
    any further growth of the peaks with N is growth with the file length, not the fill-up phase."""
    out = []
    buf, q = 0x20000, 10
    cs = (4096, 65536) if quick else (4096, 65536, 1 << 20)
    for c in cs:
        for osz in (1024, 2 * c):
            n0 = -(-(buf + (q + 4) * osz + 4 * c) // c)
            mult = (1, 2, 4) if quick else ((1, 2, 4, 8) if c <= 65536 else (1, 2))
            for m in mult:
                n = n0 * m
                if c * n > (160 << 20):
                    continue
                count = max(1, (c * n) // osz)
                for mode in "rw":
                    out.append(S.cfg(mode, [osz] * 1, 0, c, q, -1, "close", 0, 0, rep=count, static=1, bound=0,
                                     horizon=200000000, alloccap=1 << 30, tagN=n, hang=900))
                    if not quick and m == 1 and c <= 65536:
                        # a stall / burst that starts anywhere: one priority change at every 64th scheduling point
                        for sh in range(4):
                            out.append(S.cfg(mode, [osz] * 1, 0, c, q, -1, "close", 0, 0, rep=count, static=1, bound=1, maxfree=64,
                                             shard="%d/4" % sh, horizon=200000000, alloccap=1 << 30, tagN=n, tagS=sh))
                # a consumer that gives up after 5 objects: closing must not decode the rest of the file into memory
                for ending in ("close", "destroy"):
                    out.append(S.cfg("r", [osz] * 1, 0, c, q, 5, ending, 0, 0, rep=count, static=1, bound=0,
                                     horizon=200000000, alloccap=1 << 30, tagN=n))
    return out


def growth_post(results):
    groups = {}
    for r in results:
        if r.get("violation") or r.get("skipped") or r.get("infra") or "peak_heap" not in r:
            continue
        p = r["params"]
        if p.get("bound", "0") != "0":
            continue      # the one-change runs are checked by the invariant only
        key = (p["mode"], p["cont"], p["objs"], p.get("early", "-1"), p.get("ending", "close"))
        groups.setdefault(key, []).append((int(p["tagN"]), r))
    viol = []
    for key, lst in groups.items():
        lst.sort(key=lambda t: t[0])
        base = lst
        if len(base) < 2:
            continue
        n0, r0 = base[0]
        cont = int(key[1])
        osz = int(key[2].split(",")[0])
        slack = cont + 2 * osz + 65536
        for n, r in base[1:]:
            for field in ("peak_container_bytes", "peak_heap"):
                if r[field] > r0[field] + slack:
                    what = ("%s grows with the number of containers: N=%d -> %d bytes, N=%d -> %d bytes (mode=%s container=%s object=%d early=%s ending=%s)"
                            % (field, n0, r0[field], n, r[field], key[0], key[1], osz, key[3], key[4]))
                    viol.append({"key": "growth|%s|%s|%s|%s|%s|%s" % (key[0], key[1], key[2], key[3], key[4], field), "what": what,
                                 "replay": {"property": "C12", "harness": "h_session", "variant": "sched", "params": r["params"],
                                            "schedule": [], "kind": "growth", "detail": what}})
                    break
    return viol


def stages(tier):
    quick = tier == "quick"
    st = []
    st.append(dict(label="I1: invariant at every point, bound 1", harness="h_session", variant="sched",
                   configs=S.grid_small(1, bs=(64,), qs=(1, 2, 10) if not quick else (2, 10), nmax=3, endings=("close",), sizes=None) +
                           S.grid_small(1, bs=(64,), cs=(32, 64, 128), qs=(2,), nmax=4, endings=("close",), sizes=[48, 300], earlies=False),
                   share=0.4, what="objects below and above the container size; invariant evaluated at every scheduling point"))
    # many small objects: anything that lets a stage run ahead a little per object (or per container) adds up here
    longs = []
    for n in (8, 16, 32) if quick else (8, 16, 32, 64):
        for c in (32, 64, 65):
            for q in (1, 2, 10):
                for mode in "rw":
                    for extra in (dict(bound=0), dict(static=1, bound=0)) + ((dict(bound=1),) if n == 8 and q == 2 else ()):
                        longs.append(S.cfg(mode, [48], 64, c, q, -1, "close", 0, 0, rep=n, **extra))
    st.append(dict(label="I0: sessions of 8-32 small objects, invariant at every point, default schedule, static orders (bound 1 on n=8)", harness="h_session",
                   variant="sched", configs=longs, share=0.25))
    st.append(dict(label="I2: invariant at every point, bound 2", harness="h_session", variant="sched", chunk=2,
                   configs=S.grid_small(2, bs=(64,), cs=(32, 64, 65, 256) if quick else None, qs=(1, 2) if not quick else (2,), nmax=2 if quick else 3,
                                        endings=("close",), earlies=not quick), share=0.4))
    st.append(dict(label="G: growth in the number of containers", harness="h_session", variant="sched", chunk=1,
                   configs=growth_configs(quick), share=0.6, post=growth_post, reserve=15,
                   what="N containers of 4 KiB / 64 KiB (/1 MiB), objects of 1 KiB and of two containers, read and write, the 6 static "
                        "priority orders; N in {N0, 2 N0, 4 N0(, 8 N0)} with N0 beyond pipeline saturation; peak(N) must not exceed peak(N0) + one container + two objects + 64 KiB"))
    return st


def main(argv):
    return schedcheck.run_stages("C12", argv, stages, assumptions=ASSUME)
