"""C13 - every object is released exactly once and sessions shut down cleanly.

All call histories of the grammar  (open(missing)|open(unwritable))^0..3 , [open(valid,in) | open(out)] , [open again, same or other direction] ,
body , destroy  with body over {read, close} (read sessions, reads also after close and beyond the end) resp.
write^a close^b (write sessions), total length <= 12, on input files of {0,1,3,11,50} objects (11 and 50 exceed the queue
capacity): each under the default schedule and the 6 static priority orders, the abandonment histories (close / destroy
with objects pending) additionally with every single deviation (bound 1, bound 2 on the short ones); the histories on files of 3 and 11 objects and the
write histories again with the decoded-stream buffer (64 bytes) smaller than the file, so that a stage is blocked on buffer
space when the session is abandoned; a sub-grid under
AddressSanitizer (double free / use after free)."""
import itertools

from checks import schedcheck

ASSUME = [
    "objects passed to write() are instances of a counting subclass of ObjectHeader that encodes like a CAN message (the concrete classes are final)",
    "leaks are measured as the live-allocation count of the replaced operator new/delete before the history vs after the File is gone",
    "write-mode good()/eof() are not documented and are not compared; read() after close() may return objects that were already queued or null",
    "write(nullptr) (outside the property's alphabet) is issued in a few write histories; it may be ignored or throw, only the "
    "guarantees for the real objects are checked afterwards",
    "histories that would block by design are not issued: read before a successful open, write outside an open write session",
]

FAILED = ["", "M", "U", "M.U.M"]


def read_bodies(maxlen):
    out = []
    for l in range(0, maxlen + 1):
        for t in itertools.product("RC", repeat=l):
            out.append(".".join(t))
    return out


def hist(*parts):
    return ".".join(p for p in parts if p)


def read_histories(quick):
    """(history, n, abandoned?)"""
    out = []
    ns = (0, 1, 3, 11, 50)
    bodies = read_bodies(6)
    for n in ns:
        for fp in FAILED:
            for oa in ("", "A", "B"):
                if quick and fp not in ("", "M.U.M") and oa:
                    continue
                for b in bodies:
                    if quick and n in (0, 50) and (len(b) > 7):
                        continue
                    reads_before_close = 0
                    for op in b.split("."):
                        if op == "R":
                            reads_before_close += 1
                        elif op == "C":
                            break
                    abandoned = reads_before_close < n + 1
                    out.append((hist(fp, "I", oa, b, "D"), n, abandoned))
    return out


def write_histories():
    out = []
    for fp in FAILED:
        for oa in ("", "A", "B"):
            for a in range(0, 7):
                for b in range(0, 4):
                    out.append((hist(fp, "O", oa, ".".join("W" * a), ".".join("C" * b), "D"), 0, b == 0 and a > 0))
    # a null pointer passed to write() between real objects (not an object: it may be ignored or rejected, the session's
    # guarantees for the real objects must survive it); 12 objects behind it exceed the queue capacity
    for body in ("N", "W.N", "N.W", "W.N.W", "W.N.W.W", "W.W.N.W.N.W", "W.N." + ".".join("W" * 12)):
        for b in range(0, 3):
            out.append((hist("O", body, ".".join("C" * b), "D"), 0, b == 0))
    # no successful open at all
    for fp in FAILED:
        for b in range(0, 3):
            out.append((hist(fp, ".".join("C" * b), "D"), 0, False))
    return out


def cfgs(hs, **kw):
    out = []
    for h, n, ab in hs:
        s = "hist=%s n=%d" % (h, n)
        for k, v in kw.items():
            s += " %s=%s" % (k, v)
        out.append(s)
    return out


def stages(tier):
    quick = tier == "quick"
    rh = read_histories(quick)
    wh = write_histories()
    allh = rh + wh
    ab = [x for x in allh if x[2]]
    st = []
    st.append(dict(label="H0: every history, default schedule", harness="h_hist", variant="sched", configs=cfgs(allh, bound=0), share=0.25,
                   what="%d read-session and %d write-session / no-session histories" % (len(rh), len(wh))))
    st.append(dict(label="H6: every history, the 6 static priority orders", harness="h_hist", variant="sched", configs=cfgs(allh, static=1, bound=0), share=0.3))
    ab1 = ab if not quick else [x for x in ab if x[1] in (1, 3, 11)][::3] + [x for x in ab if x[1] == 0 and "W" in x[0]]
    st.append(dict(label="H1: abandonment histories, every single deviation", harness="h_hist", variant="sched", configs=cfgs(ab1, bound=1), share=0.5,
                   what="close / destroy while objects are still queued or undecoded, or with unflushed writes"))
    short = [x for x in ab if len(x[0]) <= 13 and x[1] in (1, 3)]
    # the decoder blocked on a full queue when the session is abandoned: capacity 1, three objects
    fullq = [(h, 3, True) for h in ("I.D", "I.C.D", "I.R.D", "I.R.C.D", "I.R.C.C.D", "I.R.R.D", "I.R.R.C.D", "I.A.R.C.D", "I.B.R.C.D", "M.I.R.C.D")]
    st.append(dict(label="H2: short abandonment histories, every pair of deviations", harness="h_hist", variant="sched", chunk=2,
                   configs=cfgs(short if not quick else short[::4], bound=2) + cfgs(fullq, bound=2, q=1), share=0.4))
    # the inflating stage blocked on buffer space when the session is abandoned: stream buffer (64) smaller than the file
    # (containers of 100 bytes), queue capacity 1 and 10
    small = [x for x in allh if x[1] in (3, 11) or "W.W.W" in x[0]]
    smallab = [x for x in small if x[2]]
    st.append(dict(label="HB: histories with the stream buffer smaller than the file, default schedule + static orders; abandonment with every single deviation",
                   harness="h_hist", variant="sched",
                   configs=cfgs(small, bound=0, buf=64) + cfgs(small[::2] if quick else small, static=1, bound=0, buf=64) + cfgs(small[::3] if quick else small, bound=0, buf=64, q=1)
                   + cfgs(smallab[::9] if quick else smallab, bound=1, buf=64) + cfgs(smallab[::9] if quick else smallab[::2], bound=1, buf=64, q=1), share=0.5))
    asan = allh[::7] if quick else allh[::2]
    st.append(dict(label="HA: AddressSanitizer, default schedule + static orders", harness="h_hist", variant="sched-asan",
                   configs=cfgs(asan, bound=0) + cfgs(asan[::3], static=1, bound=0) + cfgs([x for x in asan if x[2]][::4], bound=1, postrelease=1), share=0.5))
    return st


def main(argv):
    return schedcheck.run_stages("C13", argv, stages, assumptions=ASSUME)
