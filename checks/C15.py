"""C15 - the in-memory stream is a byte FIFO with iostream-like state for any chunking."""
from checks import seqcheck

ASSUME = [
    "reference model = flat byte vector + get/put position + declared end + flags of the last read, pinned to what "
    "test_UncompressedFile asserts (short read at the declared end -> eof|fail, gcount = bytes delivered, tellg/tellp -1 while "
    "failed, relative seeks clamped to the declared end, raw writes extend the declared end)",
    "not demanded: seeks/reads below the get position at the last dropOldData, reads that would cover bytes between the put "
    "position and a declared end beyond it, container appends after a finite declared end",
    "written bytes are (position mod 251), so content never has to be part of the state",
]


def jobs(tier):
    q = tier == "quick"
    j = []
    d = 7 if q else 8
    for c in (64, 1, 3):
        j.append(("plain", ["alpha=full", "depth=%d" % (d if c == 64 else d - 1), "c=%d" % c, "maxbytes=8", "maxcont=6"]))
    j.append(("plain-asan", ["alpha=full", "depth=%d" % (5 if q else 6), "c=3", "maxbytes=8", "maxcont=6"]))
    for c in (1, 2, 3, 4, 5, 64):
        j.append(("plain", ["alpha=S1", "depth=0", "c=%d" % c, "maxbytes=24", "maxcont=1000"]))
    j.append(("plain", ["alpha=S2", "depth=0", "c=3", "maxbytes=%d" % (10 if q else 12), "maxcont=1000"]))
    for c in (1, 2, 3, 5, 64):
        j.append(("plain", ["alpha=S3", "depth=0", "c=%d" % c, "maxbytes=%d" % (10 if q else 12), "maxcont=1000"]))
    for c in (1, 2, 3, 5, 64):       # declared end moved into / behind the data already written and grown again
        j.append(("plain", ["alpha=S4", "depth=0", "c=%d" % c, "maxbytes=%d" % (8 if q else 10), "maxcont=1000"]))
    j.append(("plain-asan", ["alpha=S4", "depth=0", "c=2", "maxbytes=7", "maxcont=1000"]))
    j.append(("plain-asan", ["alpha=S3", "depth=0", "c=2", "maxbytes=8", "maxcont=1000"]))
    j.append(("plain-asan", ["alpha=S2", "depth=0", "c=2", "maxbytes=7", "maxcont=1000"]))
    return j


def main(argv):
    return seqcheck.run("C15", argv, "h_seq_stream", jobs, assumptions=ASSUME)
