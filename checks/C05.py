"""C05 - file header statistics are exact and agree with the reader's running counters.

For the sequence x configuration grid x caller-supplied header patterns {defaults, 0, 1, all-ones, unique; unique supplied after open(), all-ones supplied
after the last write, 1 before open() replaced by unique after the last write}: the header
on disk is compared with an independent recomputation from the container walk of the Python decoder (fileSize = size
on disk; uncompressedFileSize = 144 + sum(32 + uncompressed size); objectCount = objects written without type 115;
restorePointsOffset = offset of the trailing container when enabled; caller fields verbatim, the computed fields
overwritten even when preset with garbage).  A sub-grid repeats the sessions on File objects that saw 1 or 3 failed open attempts first.  Every written file and every one of the 170 reference logs is read
completely through File and the reader's currentObjectCount / currentUncompressedFileSize must equal the header."""
import glob
import json
import os
import struct
import time

import driver
from checks import enumcheck, filecheck as F
from checks import C04
import decoder

ASSUME = [
    "caller-supplied header fields are what stands in File::fileStatistics when close() is called (the header is written at close())",
    "with the restore-point trailer disabled restorePointsOffset is a caller-supplied field (stored verbatim)",
    "objectCount counts every object written except type 115 (restore-point container)",
]

HP_UNIQUE = [0x11, 0x22, 0x33, 0x44, 0x55, 0x66, 0x77, 0x88, 0x99, 0xaa, 0xbb, 0xcc, 0xdd, 0xee, 0xf1, 0xf2]


def val(hp, i, width):
    if hp == 1:
        v = 0
    elif hp == 2:
        v = 1
    elif hp == 3:
        v = (1 << 64) - 1
    else:
        v = 0
        for k in range(width):
            v |= HP_UNIQUE[(i + k) % 16] << (8 * k)
    return v & ((1 << (8 * width)) - 1)


def expected_caller_fields(hp):
    hp = {5: 4, 6: 3, 7: 4}.get(hp, hp)   # supplied after open() / after the last write: what stands at close() counts
    if hp == 0:
        return None   # library defaults: whatever FileStatistics' own defaults are (checked in-process against the library's default object)
    return {"apiNumber": val(hp, 0, 4), "applicationId": val(hp, 1, 1), "compressionLevel": val(hp, 2, 1),
            "applicationMajor": val(hp, 3, 1), "applicationMinor": val(hp, 4, 1), "applicationBuild": val(hp, 5, 4),
            "measurementStartTime": tuple(val(hp, 6 + i, 2) for i in range(8)),
            "lastObjectTime": tuple(val(hp, 9 + i, 2) for i in range(8)),
            "reserved": tuple(val(hp, i, 4) for i in range(16)), "rpo_preset": val(hp, 4, 8)}


def verify_file(m):
    out = []
    try:
        b = open(m["file"], "rb").read()
    except OSError as e:
        return [("io", str(e))]
    tag = "hp%d" % m["hp"]
    try:
        h = decoder.parse_header(b)
        cs, end = decoder.containers(b, strict=True)
    except decoder.FormatError as e:
        return [("format", str(e))]
    if h["statisticsSize"] != 144:
        out.append(("statisticsSize", "statisticsSize %d" % h["statisticsSize"]))
    if h["fileSize"] != len(b):
        out.append(("fileSize", "header fileSize %d, size on disk %d" % (h["fileSize"], len(b))))
    usz = 144 + sum(32 + c["uncompressedSize"] for c in cs)
    if h["uncompressedFileSize"] != usz:
        out.append(("uncompressedFileSize", "header uncompressedFileSize %d, recomputed from the containers %d" % (h["uncompressedFileSize"], usz)))
    if h["objectCount"] != m["counted"]:
        out.append(("objectCount", "header objectCount %d, objects written (without type 115) %d" % (h["objectCount"], m["counted"])))
    exp = expected_caller_fields(m["hp"])
    if exp is None:
        exp = dict(h, rpo_preset=h["restorePointsOffset"] if not m["rp"] else 0)
    if m["rp"]:
        if not cs or h["restorePointsOffset"] != cs[-1]["pos"]:
            out.append(("restorePointsOffset", "restorePointsOffset %d does not designate the trailing container (%s)" % (h["restorePointsOffset"], cs[-1]["pos"] if cs else None)))
        elif cs[-1]["uncompressedSize"] != 0:
            pass
    elif h["restorePointsOffset"] != exp["rpo_preset"]:
        out.append(("restorePointsOffset-verbatim", "restorePointsOffset %d changed although the trailer is disabled (supplied %d)" % (h["restorePointsOffset"], exp["rpo_preset"])))
    for k in ("apiNumber", "applicationId", "compressionLevel", "applicationMajor", "applicationMinor", "applicationBuild",
              "measurementStartTime", "lastObjectTime", "reserved"):
        if h[k] != exp[k]:
            out.append(("verbatim:" + k, "caller-supplied header field %s stored as %r instead of %r" % (k, h[k], exp[k])))
    if m["writer_count"] != h["objectCount"] or m["writer_usz"] != h["uncompressedFileSize"]:
        out.append(("writer-counters", "writer's counters after close() (%d objects, %d bytes) differ from the header" % (m["writer_count"], m["writer_usz"])))
    return [(tag + "|" + k, w) for k, w in out]


def main(argv):
    tier, seed, rp = driver.tier_and_seed(argv)
    if rp:
        return enumcheck.replay(rp)
    t0 = time.time()
    quick = tier == "quick"
    exe, tables = F.harness("sched")
    d = F.tmpdir()
    from concurrent.futures import ProcessPoolExecutor
    try:
        jobs = []
        base = ["readback=1"]
        jobs += F.jobs(exe, base + ["set=alpha", "maxlen=1"] + F.cfg(F.ALL_LEVELS if not quick else [0, 1, 6, 9], F.ALL_CONTS, (0, 1), (0, 1, 2, 3, 4, 5, 6, 7)), 32)
        jobs += F.jobs(exe, base + ["set=alpha", "maxlen=2"] + F.cfg([0, 6], [1, 33, 48, 100, 0x20000] if quick else F.ALL_CONTS, (0, 1), (0, 4, 7)), 32)
        # the same File object after failed open attempts (missing file, uncreatable file): the counters start from the same base
        jobs += F.jobs(exe, base + ["set=alpha", "maxlen=1", "preopen=1"] + F.cfg([0, 6], [1, 48, 0x20000], (0, 1), (0, 4)), 4)
        jobs += F.jobs(exe, base + ["set=alpha", "maxlen=1", "preopen=3"] + F.cfg([0, 6], [1, 48, 0x20000], (0, 1), (0,)), 4)
        fixed = []
        for i, (e, a) in enumerate(jobs):
            sub = os.path.join(d, "j%d" % i)
            os.makedirs(sub)
            fixed.append((e, a + ["keep=" + sub]))
        refdir = os.path.join(driver.build.REPO, "src/Vector/BLF/tests/unittests")
        fixed.append((exe, ["set=reflogs", "refdir=" + refdir]))
        res = enumcheck.run_jobs(fixed, timeout=1500)
        viol, infra, ev, di, samples = enumcheck.collect("C05", res, "h_file", "sched", accept_props={"C05", "C06", "C10"})
        entries = F.read_manifests(os.path.join(d, "j*", "manifest.*.jsonl"))
        seen = set()
        with ProcessPoolExecutor(driver.NCPU) as ex:
            for m, probs in zip(entries, ex.map(verify_file, entries, chunksize=64)):
                for key, what in probs:
                    k = "pyheader|" + key
                    if k in seen:
                        continue
                    seen.add(k)
                    viol.append({"key": k, "what": "%s [%s]" % (what, m["label"]),
                                 "replay": {"property": "C05", "harness": "h_file", "variant": "sched", "label": m["label"], "what": what}})
        samples = [m["label"] for m in entries[:: max(1, len(entries) // 5)]][:5]
        nref = len(decoder.reference_logs(driver.build.REPO))
    finally:
        F.rmtree(d)
    rule = ("evaluations = files whose header was recomputed independently + complete read sessions (written files and reference logs) "
            "whose final counters were compared with the header; distinct = distinct file contents")
    return enumcheck.finish("C05", tier, seed, t0, viol, infra, ev, di, samples, rule, ASSUME,
                            extra={"headers_recomputed_independently": len(entries), "reference_logs_read": nref})
