"""C10 - corrupt or hostile input never causes a crash, undefined behaviour or a hang.

Complete, explicitly defined mutation sets of seed files, every member opened / read to the end / closed through File
under the deterministic scheduler in the ASan+UBSan build with a 256 MiB allocation cap:
 M1 every byte x 8 boundary substitutions; M2 every aligned 16/32-bit word x {0,1,0x7f..,0x80..,0xff..}; M3 every
 truncation; M4 deletion and duplication of every block [i,i+len), len in {1,2,4,8,16,32}; M5 M1+M2 applied to the
 uncompressed object stream, re-packed into method-0 and method-2 containers with recomputed container headers;
 M6 every length/size/count/selector field (by the layout map of the encoder) x {0,1,actual-1,actual+1,0x7f..,0x80..,
 0xff..} and all pairs of such fields within one object x {0,actual+1,0xff..}^2.
Seeds: one mixed file and four files that together hold an object of every class (levels 0 and 6), plus reference logs."""
import time

import driver
from checks import enumcheck, filecheck as F
import decoder

ASSUME = [
    "the 'structure-aware random mutation' of the quantifier is replaced by the exhaustive sets M5/M6",
    "a member whose session dies is re-run alone in a fresh process before it is reported (a process that ran thousands of sessions "
    "under the sanitizer may die of resource exhaustion)",
    "CPU loops without synchronisation points are caught by a wall-clock watchdog (20 s without progress, confirmed with 80 s alone)",
]


def main(argv):
    tier, seed, rp = driver.tier_and_seed(argv)
    if rp:
        return enumcheck.replay(rp)
    t0 = time.time()
    quick = tier == "quick"
    exe, _ = enumcheck.reflect_harness("h_fault", "sched-asan")
    jobs = []

    def add(seedarg, level, cont, sets, shards):
        for sh in range(shards):
            jobs.append((exe, ["mode=mutate", "seed=%s" % seedarg, "level=%d" % level, "cont=%d" % cont, "sets=" + sets, "shard=%d/%d" % (sh, shards)]))

    add("0", 0, 64, "M1,M2,M3,M4,M5,M6", 8)
    add("0", 6, 64, "M1,M2,M3,M4" if not quick else "M2,M3", 4)
    for s in (1, 2, 3, 4):
        add(str(s), 0, 64, "M3,M5,M6" if quick else "M1,M2,M3,M4,M5,M6", 8)
        if not quick:
            add(str(s), 6, 0x20000, "M1,M2,M3,M4", 4)
    refs = decoder.reference_logs(driver.build.REPO)
    pick = refs[:: max(1, len(refs) // 10)][:10] if quick else refs
    for f in pick:
        add("ref:" + f, 0, 0x20000, "M1,M2,M3" if quick else "M1,M2,M3,M4", 1)
    res = enumcheck.run_jobs(jobs, timeout=3000)
    viol, infra, ev, di, samples = enumcheck.collect("C10", res, "h_fault", "sched-asan", accept_props={"C10"})
    members = sum(r.get("members", 0) for r in res if r.get("params", {}).get("shard", "0/1").startswith("0/"))
    unconf = sum(r.get("crashes_not_reproduced_alone", 0) for r in res)
    rule = ("one evaluation = one member of a mutation set run through open / read loop / close; distinct = evaluations (every member is a "
            "different file); the sets are enumerated completely")
    return enumcheck.finish("C10", tier, seed, t0, viol, infra, ev, di, samples, rule, ASSUME, level="fault_enumeration",
                            extra={"members_in_sets": members, "reference_logs_used": len(pick), "crashes_not_reproduced_alone": unconf})
