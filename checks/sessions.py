"""Configuration grids for whole-File sessions under the scheduler (shared by C06, C07, C11, C12)."""
import itertools


def norm(size):
    """object sizes are >= 48 (smallest real object) and the harness builds AppText for != 48"""
    return max(48, int(size))


def aligned_padded(c, count=2):
    """object sizes that end exactly on a container boundary and are followed by padding (size % 4 != 0):
    the decoder's seek over the padding then passes the put position while the next container is still missing"""
    out = []
    k = 1
    while len(out) < count and k < 400:
        s = k * c
        if s >= 48 and s % 4:
            out.append(s)
        k += 1
    return out


def size_alphabet(b, c):
    s = sorted({48, norm(b), norm(b + c), norm(2 * (b + c)), norm(4 * (b + c))} | set(aligned_padded(c, 1)))
    return s


def containers(b):
    return sorted({max(1, b // 2), b - 1, b, b + 1, 2 * b, 4 * b})


def seqs(alpha, nmax):
    for n in range(0, nmax + 1):
        for t in itertools.product(alpha, repeat=n):
            yield list(t)


def cfg(mode, objs, b, c, q, early=-1, ending="close", level=0, rp=0, **kw):
    s = "mode=%s objs=%s buf=%d cont=%d q=%d early=%d ending=%s level=%d rp=%d" % (
        mode, ",".join(map(str, objs)) if objs else "-", b, c, q, early, ending, level, rp)
    for k, v in kw.items():
        s += " %s=%s" % (k, v)
    return s


def endings_for(n, early):
    """all three endings for complete sessions and for one mid-session cut, close otherwise"""
    if early == -1 or early == n // 2:
        return ["close", "destroy", "dclose"]
    return ["close"]


def grid_stage_a(bs=(16, 48, 64, 128), qs=(1, 2, 3, 10), nmax_full=2, extra_long=True):
    """bound-0 grid: every size relation, every early-close point, endings"""
    out = []
    for b in bs:
        for c in containers(b):
            alpha = size_alphabet(b, c)
            sl = list(seqs(alpha, nmax_full))
            if extra_long:
                sl += [[alpha[0]] * 3, [alpha[-1], alpha[0], alpha[-1]], [alpha[0], alpha[2 % len(alpha)], alpha[0], alpha[1 % len(alpha)]],
                       [alpha[1 % len(alpha)]] * 4, alpha[:4], list(reversed(alpha))[:4]]
            for q in qs:
                for objs in sl:
                    n = len(objs)
                    for mode in "rw":
                        for early in [-1] + list(range(0, n + 1)):
                            if mode == "w" and early == n:
                                continue
                            for e in endings_for(n, early):
                                out.append(cfg(mode, objs, b, c, q, early, e, bound=0))
    return out


def grid_small(bound, bs=(64,), cs=None, qs=(1, 2), nmax=2, modes="rw", earlies=True, endings=("close",), sizes=None, **kw):
    out = []
    for b in bs:
        for c in (cs or containers(b)):
            alpha = sizes or ([48, norm(b + c)] + aligned_padded(c, 1))
            for q in qs:
                for objs in seqs(alpha, nmax):
                    n = len(objs)
                    if n == 0 and bound > 0:
                        pass
                    for mode in modes:
                        el = [-1] + (list(range(0, n)) if earlies else [])
                        for early in el:
                            for e in endings:
                                out.append(cfg(mode, objs, b, c, q, early, e, bound=bound, **kw))
    return out


def stream_grid(bound, costmode=0, total=12, rng=(1, 2, 3, 4, 5, 6)):
    """bare UncompressedFile stage: every ordering of write chunk, read chunk, buffer and container size"""
    out = []
    for mode in ("raw", "cont"):
        for w in rng:
            for r in rng:
                for b in rng:
                    for c in rng:
                        if mode == "cont" and c != rng[0]:
                            continue        # the default container size plays no role when whole containers are appended
                        out.append("mode=%s w=%d r=%d b=%d c=%d total=%d bound=%d costmode=%d" % (mode, w, r, b, c, total, bound, costmode))
    return out
