"""Shared runner for bounded-exhaustive enumerations over inputs / configurations (engine E3)."""
import json
import os
import subprocess
import sys
import time
from concurrent.futures import ThreadPoolExecutor

import driver

sys.path.insert(0, os.path.join(driver.VERIF, "engine", "reflect"))
sys.path.insert(0, os.path.join(driver.VERIF, "engine", "blfpy"))
import build  # noqa: E402
import gen_reflect  # noqa: E402


def reflect_harness(name, variant):
    try:
        p, tables = gen_reflect.generate()
    except build.BuildError as e:
        raise driver.Infra("reflection generator: %s" % e)
    except Exception as e:  # parsing trouble is infrastructure, never a violation
        raise driver.Infra("reflection generator failed: %r" % e)
    return driver.harness(name, variant, gen_deps=[p]), tables


def _run(job):
    exe, args, timeout = job
    e = dict(os.environ)
    e.update(driver.SAN_ENV)
    try:
        r = subprocess.run([exe] + args, capture_output=True, text=True, env=e, timeout=timeout)
    except subprocess.TimeoutExpired:
        return [{"infra": "harness timed out after %d s" % timeout, "args": args}]
    outs = []
    for l in r.stdout.splitlines():
        if l.startswith("{"):
            try:
                d = json.loads(l)
                d["_args"] = args
                outs.append(d)
            except ValueError:
                outs.append({"infra": "unparsable output", "raw": l[:300]})
    if not outs:
        outs.append({"infra": "no output (rc %d)" % r.returncode, "stderr": r.stderr[-1500:], "args": args})
    return outs


def run_jobs(jobs, timeout=600):
    """jobs: list of (exe, [args]) -> flat list of result dicts"""
    with ThreadPoolExecutor(driver.NCPU) as ex:
        res = list(ex.map(_run, [(e, a, timeout) for e, a in jobs]))
    return [d for lst in res for d in lst]


def collect(prop, results, hname, variant, accept_props=None):
    """Turn harness result lines into (violations, infra, evaluations, distinct, samples)."""
    violations, infra, samples = [], [], []
    ev = di = 0
    seen = set()
    for r in results:
        if r.get("infra"):
            infra.append(r)
            continue
        ev += r.get("evaluations", 0)
        di += r.get("distinct", 0)
        for s in r.get("samples", [])[:1]:
            if len(samples) < 8:
                samples.append(s)
        for v in r.get("violations", []):
            if accept_props is not None and v.get("prop") not in accept_props:
                continue
            key = "%s|%s" % (hname, v["key"])
            if key in seen:
                continue
            seen.add(key)
            violations.append({"key": key, "what": "%s [%s] (x%d)" % (v["what"], v.get("spec", ""), v.get("count", 1)),
                               "replay": {"property": prop, "harness": hname, "variant": variant, "args": r.get("_args"),
                                          "spec": v.get("spec"), "what": v["what"], "key": v["key"]}})
    return violations, infra, ev, di, samples


def finish(prop, tier, seed, t0, violations, infra, ev, di, samples, rule, assumptions, extra=None, exhaustive=True,
           level="model_checking"):
    coverage = {"states": di, "transitions": ev, "traces_validated_against_impl": ev,
                "evaluations": ev, "distinct_nontrivial": di, "rule": rule,
                "samples": samples or [{"note": "none"}], "exhaustive": exhaustive}
    if extra:
        coverage.update(extra)
    return driver.finish(prop, tier, seed, level, coverage, t0, violations, list(assumptions), infra)


def replay(path):
    rp = json.load(open(path))
    if "schedule" in rp and "params" in rp:
        return driver.replay_sched(path)
    if not rp.get("args"):
        print("this violation was derived by the driver from several runs; re-run the check to reproduce it:\n%s" % json.dumps(rp, indent=1)[:2000])
        return 1
    exe, _ = reflect_harness(rp["harness"], rp["variant"])
    args = [a for a in (rp.get("args") or []) if not a.startswith("shard=")]
    spec = rp.get("spec") or ""
    cls = spec.split(" ")[0].split("#")[0] if spec else ""
    if cls and not any(a.startswith("class=") for a in args):
        args.append("class=" + cls.replace("default-constructed", "").strip())
    r = subprocess.run([exe] + args, capture_output=True, text=True)
    hit = False
    for l in r.stdout.splitlines():
        if rp.get("key", "\0") in l:
            hit = True
    print(r.stdout.strip()[:3000])
    print("replay: the recorded violation %s" % ("REPRODUCED" if hit else "did not reproduce"))
    return 1 if hit else 0
