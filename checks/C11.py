"""C11 - no data races; an object handed over is never touched by the other side again.

Pass 1 (sched-tsan): ThreadSanitizer's happens-before analysis on every explored schedule; the
scheduler's hand-offs are invisible to it (uninstrumented TU, raw futex), the wrapped real
mutex/thread/atomic operations provide the program's genuine edges.
Pass 2 (sched-asan, post-release scheduling points): a stale access after the hand-over becomes a
deterministic heap-use-after-free because the application frees every object the moment read()
returns it.
Stage TF adds write sessions whose compression thread ends with an exception (level 10: documented, rejected by zlib)."""
from checks import schedcheck, sessions as S

ASSUME = [
    "ThreadSanitizer's happens-before analysis is sound for the accesses that occur in the explored schedules",
    "the application uses the documented API from one thread; mid-session it reads only currentObjectCount (atomic)",
    "AddressSanitizer quarantine keeps freed objects poisoned for the rest of an execution (sessions are tiny)",
]


def sess(bound, nmax, extra, bs=(64,), cs=(32, 64, 65, 256), qs=(1, 2), endings=("close",), earlies=True, sizes=None):
    return S.grid_small(bound, bs=bs, cs=cs, qs=qs, nmax=nmax, endings=endings, earlies=earlies, sizes=sizes, **extra)


def stages(tier):
    quick = tier == "quick"
    st = []
    t = dict(hook=0, inv=0)
    a = dict(postrelease=1, inv=0)
    st.append(dict(label="T1: ThreadSanitizer, bound 1", harness="h_session", variant="sched-tsan",
                   configs=sess(1, 3 if not quick else 2, t, qs=(1, 2, 10), endings=("close", "destroy")), share=0.3,
                   what="read and write sessions, close after k of n, every single deviation"))
    # sessions in which a worker fails: level 10 is documented in File.h ("maximum compression") but zlib rejects it inside the
    # compression thread, which then ends with an exception that close() reports; data smaller than the stream buffer, so
    # the session still ends.  Only races / memory errors / hangs are checked there (verify=0).
    failing = [S.cfg("w", objs, 64, c, q, -1, e, 10, 0, bound=b, verify=0, **t)
               for b in (1, 2) for objs in ([48], [48, 48]) for c in (32, 64, 256) for q in (1, 2) for e in ("close", "destroy")
               if not (b == 2 and (len(objs) > 1 or c != 64 or quick and q != 2))]
    st.append(dict(label="TF: ThreadSanitizer, write sessions whose compression thread fails (level 10), bounds 1 and 2", harness="h_session",
                   variant="sched-tsan", configs=failing, share=0.15))
    st.append(dict(label="T2: ThreadSanitizer, bound 2", harness="h_session", variant="sched-tsan", chunk=1,
                   configs=sess(2, 2, t, cs=(64,) if quick else (32, 64, 65, 256), qs=(2,) if quick else (1, 2), earlies=not quick, **({"sizes": [48]} if quick else {})), share=0.35))
    st.append(dict(label="A1: AddressSanitizer + post-release points, bound 1", harness="h_session", variant="sched-asan",
                   configs=sess(1, 3 if not quick else 2, a, qs=(1, 2, 10), endings=("close", "destroy")), share=0.3,
                   what="scheduling points also right after every unlock / wait return, so the application can run between a "
                        "release and a following stale access"))
    st.append(dict(label="A2: AddressSanitizer + post-release points, bound 2", harness="h_session", variant="sched-asan", chunk=1,
                   configs=sess(2, 2, a, cs=(64,) if quick else (32, 64, 65, 256), qs=(2,) if quick else (1, 2), earlies=not quick, **({"sizes": [48]} if quick else {})), share=0.5))
    return st


def main(argv):
    return schedcheck.run_stages("C11", argv, stages, assumptions=ASSUME)
