"""C11 - no data races; an object handed over is never touched by the other side again.

Pass 1 (sched-tsan): ThreadSanitizer's happens-before analysis on every explored schedule; the
scheduler's hand-offs are invisible to it (uninstrumented TU, raw futex), the wrapped real
mutex/thread/atomic operations provide the program's genuine edges.
Pass 2 (sched-asan, post-release scheduling points): a stale access after the hand-over becomes a
deterministic heap-use-after-free because the application frees every object the moment read()
returns it.
Stage TF adds write sessions whose compression thread ends with an exception (level 10: documented, rejected by zlib)."""
import json
import os
import subprocess
import time
from concurrent.futures import ThreadPoolExecutor

import driver
from checks import schedcheck, sessions as S

ASSUME = [
    "ThreadSanitizer's happens-before analysis is sound for the accesses that occur in the explored schedules",
    "the application uses the documented API from one thread; mid-session it reads only currentObjectCount (atomic)",
    "AddressSanitizer quarantine keeps freed objects poisoned for the rest of an execution (sessions are tiny)",
]


def sess(bound, nmax, extra, bs=(64,), cs=(32, 64, 65, 256), qs=(1, 2), endings=("close",), earlies=True, sizes=None):
    return S.grid_small(bound, bs=bs, cs=cs, qs=qs, nmax=nmax, endings=endings, earlies=earlies, sizes=sizes, **extra)


def stages(tier):
    quick = tier == "quick"
    st = []
    t = dict(hook=0, inv=0)
    a = dict(postrelease=1, inv=0)
    st.append(dict(label="T1: ThreadSanitizer, bound 1", harness="h_session", variant="sched-tsan",
                   configs=sess(1, 3 if not quick else 2, t, qs=(1, 2, 10), endings=("close", "destroy")), share=0.3,
                   what="read and write sessions, close after k of n, every single deviation"))
    # sessions in which a worker fails: level 10 is documented in File.h ("maximum compression") but zlib rejects it inside the
    # compression thread, which then ends with an exception that close() reports; data smaller than the stream buffer, so
    # the session still ends.  Only races / memory errors / hangs are checked there (verify=0).
    failing = [S.cfg("w", objs, 64, c, q, -1, e, 10, 0, bound=b, verify=0, **t)
               for b in (1, 2) for objs in ([48], [48, 48]) for c in (32, 64, 256) for q in (1, 2) for e in ("close", "destroy")
               if not (b == 2 and (len(objs) > 1 or c != 64 or quick and q != 2))]
    st.append(dict(label="TF: ThreadSanitizer, write sessions whose compression thread fails (level 10), bounds 1 and 2", harness="h_session",
                   variant="sched-tsan", configs=failing, share=0.15))
    st.append(dict(label="T2: ThreadSanitizer, bound 2", harness="h_session", variant="sched-tsan", chunk=1,
                   configs=sess(2, 2, t, cs=(64,) if quick else (32, 64, 65, 256), qs=(2,) if quick else (1, 2), earlies=not quick, **({"sizes": [48]} if quick else {})), share=0.35))
    st.append(dict(label="A1: AddressSanitizer + post-release points, bound 1", harness="h_session", variant="sched-asan",
                   configs=sess(1, 3 if not quick else 2, a, qs=(1, 2, 10), endings=("close", "destroy")), share=0.3,
                   what="scheduling points also right after every unlock / wait return, so the application can run between a "
                        "release and a following stale access"))
    st.append(dict(label="A2: AddressSanitizer + post-release points, bound 2", harness="h_session", variant="sched-asan", chunk=1,
                   configs=sess(2, 2, a, cs=(64,) if quick else (32, 64, 65, 256), qs=(2,) if quick else (1, 2), earlies=not quick, **({"sizes": [48]} if quick else {})), share=0.5))
    return st


def fresh_process_part(tier, budget):
    """Every schedule with at most one deviation of a few write sessions, each in a process of its own: state that lives as
    long as the process (function-local statics, lazily grown scratch buffers shared by the workers) is in its initial state
    only in the first execution of a process, which the in-process re-execution of the other stages explores with the
    default schedule only."""
    exe = driver.harness("h_session", "sched-tsan")
    env = dict(os.environ)
    env.update(driver.SAN_ENV)
    # a deviation that does not exist ends the process from inside the scheduler with its threads still alive
    env["TSAN_OPTIONS"] = driver.SAN_ENV["TSAN_OPTIONS"] + " report_thread_leaks=0"
    quick = tier == "quick"
    cfgs = []
    for objs in ([49, 50, 51], [51, 48]) if quick else ([49, 50, 51], [51, 48], [49], [129, 49]):
        for c in (65, 67) if quick else (33, 65, 66, 67):
            for lv in (0,) if quick else (0, 6):
                cfgs.append(S.cfg("w", objs, 64, c, 2, -1, "close", lv, 0, hook=0, inv=0, fresh=1))
    for objs in ([49, 51],):
        cfgs.append(S.cfg("r", objs, 64, 65, 2, -1, "close", 0, 0, hook=0, inv=0, fresh=1))

    def run(args):
        try:
            r = subprocess.run([exe] + args, capture_output=True, text=True, env=env, timeout=120)
        except subprocess.TimeoutExpired:
            return {"infra": "timeout", "args": args}
        for l in r.stdout.splitlines():
            if l.startswith("{"):
                try:
                    return json.loads(l)
                except ValueError:
                    pass
        return {"infra": "no result (rc %d)" % r.returncode, "args": args, "stderr": r.stderr[-1500:]}

    t0 = time.time()
    viol, infra = [], []
    execs = points = 0
    jobs = []
    with ThreadPoolExecutor(driver.NCPU) as ex:
        base = list(ex.map(lambda c: run(c.split() + ["replay=-"]), cfgs))
        for c, b in zip(cfgs, base):
            if b.get("infra"):
                infra.append(b)
                continue
            if b.get("violation"):
                viol.append(driver.sched_violation("C11", b, "sched-tsan", "h_session"))
                continue
            for i in range(int(b.get("max_choices", 0)) + 2):
                for alt in (1, 2):
                    jobs.append(c.split() + ["replay=%d:%d" % (i, alt)])
        seen = set()
        for r in ex.map(run, jobs):
            if r.get("infra"):
                infra.append(r)
                continue
            v = r.get("violation")
            if v and v.get("kind") == "replay-divergence" and any(t in v.get("detail", "") for t in ("out of range", "skipped", "ended before")):
                continue        # no such schedule: fewer alternatives / fewer choice points than tried
            execs += r.get("executions", 0)
            points += r.get("points", 0)
            if v:
                rec = driver.sched_violation("C11", r, "sched-tsan", "h_session")
                k = rec["key"]
                if k not in seen:
                    seen.add(k)
                    viol.append(rec)
    cov = {"_key": "fresh_process_part", "states": execs, "transitions": points, "exhaustive": True, "configurations": len(cfgs), "schedules_each_in_a_fresh_process": execs,
           "wall_s": round(time.time() - t0, 1),
           "what": "write (and one read) sessions with padded objects and padded containers: the default schedule and every single deviation, "
                   "one process per schedule, under ThreadSanitizer"}
    return viol, infra, cov


def main(argv):
    return schedcheck.run_stages("C11", argv, stages, assumptions=ASSUME, extra=fresh_process_part, budget={"quick": 170.0, "thorough": 1500.0})
