"""C16 - the object queue is a bounded FIFO with exact end-of-stream and abort.

Sequential half: explicit-state search to closure over {write, read, setFileSize, abort, setBufferSize}
against a reference model.  Concurrent half: producer, consumer and a third thread (setFileSize(n) or
abort()) on the bare queue - every interleaving at synchronisation points with preemption bound 2 and
unbounded free switches, deviation bound 3, and all interleavings without any bound for n <= 3 (quick: n = 3 only for capacities 2 and 3)."""
from checks import schedcheck, seqcheck


ASSUME = [
    "the queue is used by one producer and one consumer (as File does); the third thread only calls setFileSize()/abort()",
    "scheduling points at mutex lock and condition wait; no spurious wake-ups (predicate waits only)",
]


def qcfg(cap, n, third, bound, costmode, **kw):
    s = "cap=%d n=%d third=%s bound=%d costmode=%d" % (cap, n, third, bound, costmode)
    for k, v in kw.items():
        s += " %s=%s" % (k, v)
    return s


def stages(tier):
    quick = tier == "quick"
    thirds = ("none", "eof", "abort", "eofprod")
    st = []
    st.append(dict(label="P2: preemption bound 2, unbounded free switches", harness="h_queue", variant="sched", chunk=2,
                   configs=[qcfg(c, n, t, 2, 1) for c in (1, 2, 3) for n in range(0, 5) for t in thirds], share=0.3,
                   what="capacities 1..3 x 0..4 objects x {no third thread, setFileSize(n) by a third thread, abort() by a third thread, "
                        "setFileSize(tellp) by the producer}"))
    st.append(dict(label="D3: deviation bound 3", harness="h_queue", variant="sched", chunk=2,
                   configs=[qcfg(c, n, t, 3, 0) for c in (1, 2, 3) for n in range(0, 5) for t in thirds], share=0.3))
    full_n = (0, 1, 2, 3)
    st.append(dict(label="ALL: every interleaving (no bound)", harness="h_queue", variant="sched", chunk=1,
                   configs=[qcfg(c, n, t, 60, 1) for c in (1, 2, 3) for n in full_n for t in thirds if n < 3] +
                           [qcfg(c, 3, t, 60, 1, shard="%d/6" % sh) for c in ((2, 3) if quick else (1, 2, 3)) for t in thirds for sh in range(6)], share=0.7))
    st.append(dict(label="ASAN: preemption bound 2 under AddressSanitizer", harness="h_queue", variant="sched-asan", chunk=2,
                   configs=[qcfg(c, n, t, 2, 1, postrelease=1) for c in (1, 2) for n in (1, 2, 3) for t in thirds], share=0.3))
    return st


def seq_part(tier, budget):
    jobs = [("plain", ["maxobj=5"]), ("plain-asan", ["maxobj=4"])]
    if tier != "quick":
        jobs.append(("plain", ["maxobj=8"]))
    return seqcheck.run_jobs("C16", "h_seq_queue", jobs, budget)


def main(argv):
    return schedcheck.run_stages("C16", argv, stages, assumptions=ASSUME, extra=seq_part,
                                 replay_extra=lambda p: seqcheck.replay_file("h_seq_queue", p))
