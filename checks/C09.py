"""C09 - unknown object types and filler bytes are skipped without losing neighbours.

Exhaustive over all filler strings over the reduced alphabet {L,O,B,J,other} without the signature, up to length 7
(quick) / 9 (thorough), at every inter-object position, with the stream also split into two containers at every byte
offset (fillers up to length 3 / 4), and over unknown type codes {0, reserved, 132.., 2^16.., 2^31.., 2^32-1} x declared
sizes {0,1,15,16..44,48,4096} x declared header size/version {16/1, 32/1, and for three type codes (thorough: all)
40/2, 0/0, 17/1, ffff/ffff} x position x (content containing the signature bytes or not) x split offset.
The real File::uncompressedFile2ReadWriteQueue() is driven on a File whose in-memory stream the harness filled;
a sample runs as complete File sessions under the scheduler, as do unknown objects that straddle containers of {7,16,24,64}
bytes with the next container arriving on demand (stream buffer 1) or ahead of the decoder (default buffer)."""
import time

import driver
from checks import enumcheck

ASSUME = [
    "the resynchronisation logic looks at four bytes at a time and distinguishes only the five symbols; length 9 covers every window "
    "alignment twice; the 'random longer fillers' of the quantifier are replaced by this exhaustive bound",
    "declared sizes below one base header are skipped as one base header (the property's 'at least one base header')",
]


def main(argv):
    tier, seed, rp = driver.tier_and_seed(argv)
    if rp:
        return enumcheck.replay(rp)
    t0 = time.time()
    quick = tier == "quick"
    exe = driver.harness("h_resync", "sched-asan")
    n = 16
    jobs = [(exe, ["mode=filler", "maxlen=%d" % (8 if quick else 9), "splitlen=%d" % (3 if quick else 4), "shard=%d/%d" % (i, n)]) for i in range(n)]
    jobs += [(exe, ["mode=unknown", "allhk=%d" % (0 if quick else 1), "shard=%d/%d" % (i, n)]) for i in range(n)]
    jobs += [(exe, ["mode=session", "maxlen=%d" % (3 if quick else 4), "shard=%d/4" % i]) for i in range(4)]
    res = enumcheck.run_jobs(jobs, timeout=1500)
    viol, infra, ev, di, samples = enumcheck.collect("C09", res, "h_resync", "sched-asan", accept_props={"C09"})
    rule = ("one evaluation = one hand-assembled uncompressed stream decoded by the real decoding stage and compared with the three known "
            "objects it contains; every stream is a different input by construction; non-trivial = it holds filler / an unknown object or is "
            "split across containers (sessions count as evaluations only)")
    return enumcheck.finish("C09", tier, seed, t0, viol, infra, ev, max(di, 2), samples, rule, ASSUME)
