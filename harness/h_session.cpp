/* Whole-File sessions under the deterministic scheduler (C06, C07, C11, C12, parts of C13).
 *
 * args: mode=r|w objs=48,48,112 buf=<bytes|0=library default> cont=<bytes> q=<queue capacity>
 *       early=<k|-1> ending=close|destroy|dclose level=<0..9> rp=0|1 extra=<reads beyond end>
 *       bound=.. postrelease=0|1 static=0|1 inv=0|1
 *
 * Read sessions: the input file is assembled by blfasm (reference assembler) from the objects'
 * encodings; the observation is the list of delivered objects (re-encoded and compared byte by
 * byte with what was put in), end-of-file flags, and close() returning.
 * Write sessions: the file on disk must equal the reference assembly, in every schedule.
 */
#include <Vector/BLF.h>

#include <sys/wait.h>

#include "alloccap.h"
#include "blfasm.h"
#include "blfdefaults.h"
#include "explore.h"
#include "memfile.h"

using namespace Vector::BLF;

static char MODE = 'r';
static std::vector<int> SIZES;
static long BUF, CONT, QCAP, EARLY, LEVEL, RP, EXTRA, INV, VERIFY;
static std::string ENDING, PATH;
static std::vector<blfasm::Bytes> ENC;      /* expected encoding per object */
static blfasm::Bytes STREAM;
static File * g_file;
static size_t g_maxobj;
static long g_peak_data, g_peak_queue, g_peak_n, g_peak_heap, g_heap_base;

static ObjectHeaderBase * mk(int i) {
    int size = SIZES[i];
    if (size == 48) {
        auto * m = new CanMessage;
        m->channel = 1;
        m->id = 0x100 + i;
        m->dlc = 8;
        for (int k = 0; k < 8; k++) m->data[k] = (uint8_t)(i * 16 + k);
        m->objectTimeStamp = 1000 + i;
        return m;
    }
    auto * a = new AppText;
    a->source = i;
    a->objectTimeStamp = 1000 + i;
    a->text.assign(size > 48 ? size - 48 : 0, (char)('a' + i % 20));
    for (size_t k = 0; k < a->text.size(); k++) a->text[k] = (char)('a' + (i + k) % 20);
    return a;
}

static void prepare() {
    for (size_t i = 0; i < SIZES.size(); i++) {
        ObjectHeaderBase * o = mk((int)i);
        MemFile m;
        o->write(m);
        delete o;
        ENC.push_back(m.data);
        if (m.data.size() > g_maxobj) g_maxobj = m.data.size();
        blfasm::put(STREAM, m.data.data(), m.data.size());
    }
    if (MODE == 'r') {
        blfasm::Bytes f = blfasm::file_bytes(STREAM, (size_t)CONT, (int)LEVEL, RP != 0, (uint32_t)SIZES.size());
        if (!blfasm::save(PATH, f)) { fprintf(stderr, "cannot write %s\n", PATH.c_str()); _exit(3); }
    }
}

/* fresh=1: the expected encodings are computed in a forked helper, so that the process that runs the session has not executed
 * any library code before it (process-wide state - function-local statics, lazily grown scratch buffers - still initial) */
static void prepare_in_helper(const std::string & scratch) {
    std::string tmp = scratch + "/prep.bin";
    fflush(stdout);
    pid_t pid = fork();
    if (pid == 0) {
        prepare();
        FILE * f = fopen(tmp.c_str(), "wb");
        if (!f) _exit(3);
        uint64_t n = ENC.size(), mo = g_maxobj;
        fwrite(&n, 8, 1, f);
        fwrite(&mo, 8, 1, f);
        for (auto & e : ENC) { uint64_t l = e.size(); fwrite(&l, 8, 1, f); fwrite(e.data(), 1, e.size(), f); }
        fclose(f);
        _exit(0);
    }
    int st = 0;
    waitpid(pid, &st, 0);
    FILE * f = fopen(tmp.c_str(), "rb");
    if (!f || !WIFEXITED(st) || WEXITSTATUS(st)) { fprintf(stderr, "prepare helper failed\n"); _exit(3); }
    uint64_t n = 0, mo = 0;
    if (fread(&n, 8, 1, f) != 1 || fread(&mo, 8, 1, f) != 1) _exit(3);
    g_maxobj = (size_t)mo;
    for (uint64_t i = 0; i < n; i++) {
        uint64_t l = 0;
        if (fread(&l, 8, 1, f) != 1) _exit(3);
        blfasm::Bytes b(l);
        if (l && fread(b.data(), 1, l, f) != l) _exit(3);
        ENC.push_back(b);
        blfasm::put(STREAM, b.data(), b.size());
    }
    fclose(f);
}

static void on_point(int, const void *) {
    File * f = g_file;
    if (!f) return;
    long sum = 0;
    for (auto & lc : f->m_uncompressedFile.m_data) sum += (long)lc->uncompressedFile.size();
    if (sum > g_peak_data) g_peak_data = sum;
    long nc = (long)f->m_uncompressedFile.m_data.size();
    if (nc > g_peak_n) g_peak_n = nc;
    long hp = alloccap::live_bytes - g_heap_base;
    if (hp > g_peak_heap) g_peak_heap = hp;
    long qs = (long)f->m_readWriteQueue.m_queue.size();
    if (qs > g_peak_queue) g_peak_queue = qs;
    if (!INV) return;
    long bufsz = BUF > 0 ? BUF : 0x20000;
    long lim = bufsz + 3 * CONT + (long)g_maxobj;
    if (sum > lim)
        vx::inv_fail("decoded containers held: " + std::to_string(sum) + " bytes > buffer+3*container+largest object = " + std::to_string(lim));
    /* after abort() (close of a read session) the decoder may still hand over the object it was working on */
    long qlim = QCAP + (f->m_readWriteQueue.m_abort ? 2 : 0);
    if (qs > qlim)
        vx::inv_fail("object queue holds " + std::to_string(qs) + " objects, capacity " + std::to_string(QCAP) +
                     (f->m_readWriteQueue.m_abort ? " (after abort: capacity + 2 tolerated)" : ""));
}

struct FileGuard {
    explicit FileGuard(File * f) { g_file = f; g_heap_base = alloccap::live_bytes; }
    ~FileGuard() { g_file = nullptr; }
};

/* the private bounds stand for the constants of File's constructor: they are set first, the public configuration an
 * application performs (container size, level, restore points) comes after it and must leave them alone */
static void configure(File & f) {
    if (BUF > 0) f.m_uncompressedFile.setBufferSize(BUF);
    f.m_readWriteQueue.setBufferSize((uint32_t)QCAP);
}

static void finish(File & f) {
    if (ENDING == "close") f.close();
    else if (ENDING == "dclose") { f.close(); f.close(); }
    if (ENDING != "destroy" && f.is_open()) throw vx::Violation("state", "is_open() still true after close()");
}

static std::string read_body() {
    std::string obs;
    alloccap::big_requests = 0;
    {
        File f;
        FileGuard fg(&f);
        configure(f);
        f.setDefaultLogContainerSize((uint32_t)CONT);   /* without meaning for reading; an application may configure it all the same */
        f.open(PATH.c_str());
        if (!f.is_open()) throw vx::Violation("state", "open() of a valid file failed");
        size_t n = SIZES.size();
        long want = EARLY >= 0 ? EARLY : (long)n + 1 + EXTRA;
        size_t got = 0;
        bool sawnull = false;
        for (long r = 0; r < want; r++) {
            ObjectHeaderBase * o = f.read();
            if (!o) {
                sawnull = true;
                if (got != n) throw vx::Violation("wrong-result", "end of file reported after " + std::to_string(got) + " of " + std::to_string(n) + " objects");
                if (!f.eof() || f.good()) throw vx::Violation("wrong-result", "null result but eof()/good() do not report end of file");
                obs += "E";
                continue;
            }
            if (sawnull) throw vx::Violation("wrong-result", "object delivered after end of file");
            if (got >= n) throw vx::Violation("wrong-result", "more objects delivered than the file holds");
            if (!f.good()) throw vx::Violation("wrong-result", "good() false right after a delivered object");
            MemFile m;
            o->write(m);
            if (m.data != ENC[got])
                throw vx::Violation("wrong-result", "object " + std::to_string(got) + " differs from the object in the file (type " +
                                    std::to_string((unsigned)o->objectType) + ", size " + std::to_string(o->objectSize) + ")");
            obs += std::to_string((unsigned)o->objectType) + ":" + std::to_string(o->objectSize) + ",";
            /* the application owns it now: scribble and free at once */
            o->objectType = ObjectType::UNKNOWN;
            o->objectSize = 0;
            delete o;
            got++;
            uint32_t cnt = f.currentObjectCount;
            if (cnt > n) throw vx::Violation("wrong-result", "currentObjectCount " + std::to_string(cnt) + " after " + std::to_string(got) + " delivered");
        }
        finish(f);
        if (ENDING != "destroy" && EARLY < 0) {
            if (f.currentObjectCount != n) throw vx::Violation("wrong-result", "currentObjectCount after complete read != objects in file");
        }
    }
    if (alloccap::big_requests) throw vx::Violation("alloc-cap", "allocation of " + std::to_string(alloccap::last_big) + " bytes requested");
    return obs;
}

static std::string write_body() {
    alloccap::big_requests = 0;
    size_t k = EARLY >= 0 ? (size_t)EARLY : SIZES.size();
    {
        File f;
        FileGuard fg(&f);
        configure(f);
        f.compressionLevel = (int)LEVEL;
        f.writeRestorePoints = RP != 0;
        f.setDefaultLogContainerSize((uint32_t)CONT);
        f.open(PATH.c_str(), std::ios_base::out);
        if (!f.is_open()) throw vx::Violation("state", "open() for writing failed");
        for (size_t i = 0; i < k; i++) {
            f.write(mk((int)i));
            uint32_t cnt = f.currentObjectCount;
            if (cnt > i + 1) throw vx::Violation("wrong-result", "currentObjectCount runs ahead of the objects written");
        }
        finish(f);
    }
    if (alloccap::big_requests) throw vx::Violation("alloc-cap", "allocation of " + std::to_string(alloccap::last_big) + " bytes requested");
    blfasm::Bytes got = blfasm::load(PATH);
    /* verify=0: sessions in which a worker fails by design (compression level 10 is documented in File.h but rejected by
     * zlib inside the compression thread) - only the absence of races, hangs and memory errors is checked there */
    if (!VERIFY) return "file:unverified";
    blfasm::Bytes stream;
    for (size_t i = 0; i < k; i++) blfasm::put(stream, ENC[i].data(), ENC[i].size());
    std::string bad = blfasm::verify(got, stream, (size_t)CONT, (int)LEVEL, RP != 0, (uint32_t)k, library_header_defaults());
    if (!bad.empty()) throw vx::Violation("wrong-file", "written file: " + bad);
    return "file:" + std::to_string(got.size()) + ":" + hex64(fnv64(got.data(), got.size()));
}

static int run_config(const vx::Args & args) {
    MODE = args.str("mode", "r")[0];
    std::string objs = args.str("objs", "48,48");
    SIZES.clear();
    for (const char * p = objs.c_str(); *p && objs != "-";) {
        SIZES.push_back((int)strtol(p, (char **)&p, 10));
        if (*p == ',') p++;
    }
    long rep = args.num("rep", 1);
    if (rep > 1) {
        std::vector<int> one = SIZES;
        SIZES.clear();
        for (long i = 0; i < rep; i++) SIZES.insert(SIZES.end(), one.begin(), one.end());
    }
    BUF = args.num("buf", 64);
    CONT = args.num("cont", 64);
    QCAP = args.num("q", 2);
    EARLY = args.num("early", -1);
    ENDING = args.str("ending", "close");
    LEVEL = args.num("level", 0);
    RP = args.num("rp", 0);
    EXTRA = args.num("extra", 0);
    INV = args.num("inv", 1);
    VERIFY = args.num("verify", 1);
    alloccap::cap = (size_t)args.num("alloccap", 64 << 20);
    vx::Options opt;
    opt.bound = 1;
    opt.horizon = 200000;
    args.apply(opt);
    opt.on_point = args.num("hook", 1) ? on_point : nullptr;
    std::string scratch = vx::make_scratch();
    PATH = scratch + "/s.blf";
    int rc = vx::supervise("session", args, opt, [&](vx::Explorer & ex) {
        if (args.num("fresh", 0)) prepare_in_helper(scratch);
        else prepare();
        ex.body = MODE == 'r' ? read_body : write_body;
        ex.explore();
        char extra[256];
        snprintf(extra, sizeof extra, "\"peak_container_bytes\":%ld,\"peak_containers\":%ld,\"peak_queue\":%ld,\"peak_heap\":%ld",
                 g_peak_data, g_peak_n, g_peak_queue, g_peak_heap);
        ex.st.extra = extra;
    }, scratch);
    return rc;
}

int main(int argc, char ** argv) {
    int rc = vx::run_batch(argc, argv, run_config);
    vx::remove_scratch(vx::make_scratch());
    return rc;
}
