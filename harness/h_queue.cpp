/* C16 (concurrent half): one producer, one consumer and an optional third thread
 * (setFileSize(n) or abort()) on the bare ObjectQueue<ObjectHeaderBase>, every
 * interleaving up to the bound.
 *
 * args: cap=<q> n=<objects> third=none|eof|abort|eofprod bound=<b> costmode=0|1
 */
#include <Vector/BLF/ObjectHeaderBase.h>
#include <Vector/BLF/ObjectQueue.h>

#include "explore.h"

using namespace Vector::BLF;

static int g_dtor[16];
struct Obj : ObjectHeaderBase {
    int serial;
    explicit Obj(int s) : ObjectHeaderBase(1, ObjectType::UNKNOWN), serial(s) {}
    ~Obj() override { g_dtor[serial & 15]++; }
};

static int CAP, N, POSTREL;
static std::string THIRD;
static ObjectQueue<ObjectHeaderBase> * g_q;
static bool g_aborted;

static void on_point(int, const void *) {
    if (!g_q) return;
    size_t sz = g_q->m_queue.size();
    if (!g_aborted && !g_q->m_abort && sz > (size_t)CAP)
        vx::inv_fail("queue holds " + std::to_string(sz) + " objects, capacity " + std::to_string(CAP));
}

static std::string body() {
    for (int & d : g_dtor) d = 0;
    std::string obs;
    std::string err;
    {
        ObjectQueue<ObjectHeaderBase> q;
        q.setBufferSize((uint32_t)CAP);
        g_aborted = false;
        g_q = &q;
        std::thread prod([&] {
            for (int i = 0; i < N; i++) q.write(new Obj(i));
            if (THIRD == "eofprod") q.setFileSize(q.tellp());
        });
        std::thread third;
        if (THIRD == "eof") third = std::thread([&] { q.setFileSize((uint32_t)N); });
        if (THIRD == "abort") third = std::thread([&] { g_aborted = true; q.abort(); });
        /* consumer = this thread */
        int expect = 0;
        int reads = (THIRD == "none") ? N : N + 1 + (THIRD == "abort" ? 0 : 1);
        for (int r = 0; r < reads; r++) {
            ObjectHeaderBase * o = q.read();
            if (o == nullptr) {
                size_t left = q.m_queue.size();   /* no scheduling point since read() decided */
                bool consumed = q.m_tellg >= q.m_fileSize;
                bool ab = q.m_abort;
                if (POSTREL) { /* other threads may have run since read() decided: the snapshot is not exact */ }
                else if (left != 0) err = "null result while " + std::to_string(left) + " objects remain";
                else if (!consumed && !ab) err = "null result although neither the declared size was consumed nor abort() called";
                else if (!q.eof() || q.good()) err = "null result but eof()/good() do not report end of stream";
                obs += "E";
                if (THIRD == "abort") break;
            } else {
                Obj * ob = static_cast<Obj *>(o);
                if (ob->serial != expect) err = "object " + std::to_string(ob->serial) + " delivered, expected " + std::to_string(expect);
                expect++;
                if (!q.good() || q.eof()) err = "good()/eof() wrong after a delivered object";
                obs += std::to_string(ob->serial) + ",";
                delete o;
            }
            if (!err.empty()) break;
        }
        if (err.empty() || true) {
            prod.join();
            if (third.joinable()) third.join();
        }
        if (err.empty() && THIRD != "abort" && THIRD != "none") {
            if (expect != N) err = "only " + std::to_string(expect) + " of " + std::to_string(N) + " objects delivered before end of stream";
        }
        g_q = nullptr;
    }
    if (!err.empty()) throw vx::Violation("queue-semantics", err + " (observed " + obs + ")");
    for (int i = 0; i < N; i++)
        if (g_dtor[i] != 1)
            throw vx::Violation("release", "object " + std::to_string(i) + " destroyed " + std::to_string(g_dtor[i]) + " times");
    return obs;
}

static int run_config(const vx::Args & args) {
    CAP = (int)args.num("cap", 1);
    N = (int)args.num("n", 2);
    THIRD = args.str("third", "eof");
    vx::Options opt;
    opt.bound = 2;
    opt.horizon = 20000;
    args.apply(opt);
    POSTREL = opt.post_release;
    opt.on_point = on_point;
    return vx::supervise("queue", args, opt, [&](vx::Explorer & ex) {
        ex.body = body;
        ex.explore();
    }, vx::make_scratch());
}

int main(int argc, char ** argv) {
    int rc = vx::run_batch(argc, argv, run_config);
    vx::remove_scratch(vx::make_scratch());
    return rc;
}
