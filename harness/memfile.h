/* Strict in-memory AbstractFile used by harnesses: flat byte vector, bounds checked,
 * every write(ptr,n) recorded as a chunk (layout map), reads beyond the end set eof|fail. */
#pragma once
#include <Vector/BLF/AbstractFile.h>

#include <cstdint>
#include <cstring>
#include <string>
#include <vector>

struct MemFile : Vector::BLF::AbstractFile {
    struct Chunk { size_t off, len; const void * src; };
    std::vector<uint8_t> data;
    std::vector<Chunk> chunks;
    size_t g = 0;
    std::streamsize gc = 0;
    bool fail_ = false, eof_ = false;
    bool record = false;
    long bad_seek = 0;

    MemFile() = default;
    explicit MemFile(const std::vector<uint8_t> & d) : data(d) {}

    std::streamsize gcount() const override { return gc; }
    void read(char * s, std::streamsize n) override {
        if (n < 0) { fail_ = true; gc = 0; return; }
        size_t avail = data.size() - g;
        size_t k = (size_t)n <= avail ? (size_t)n : avail;
        if (k) memcpy(s, data.data() + g, k);
        g += k;
        gc = (std::streamsize)k;
        if (k < (size_t)n) { eof_ = true; fail_ = true; }
    }
    std::streampos tellg() override { return fail_ ? std::streampos(-1) : std::streampos((std::streamoff)g); }
    void seekg(std::streamoff off, const std::ios_base::seekdir way = std::ios_base::cur) override {
        long long base = way == std::ios_base::beg ? 0 : way == std::ios_base::end ? (long long)data.size() : (long long)g;
        long long p = base + off;
        if (p < 0) { bad_seek++; p = 0; }
        if (p > (long long)data.size()) { p = (long long)data.size(); }
        g = (size_t)p;
    }
    void write(const char * s, std::streamsize n) override {
        if (n <= 0) return;
        if (record) chunks.push_back({data.size(), (size_t)n, s});
        data.insert(data.end(), reinterpret_cast<const uint8_t *>(s), reinterpret_cast<const uint8_t *>(s) + n);
    }
    std::streampos tellp() override { return std::streampos((std::streamoff)data.size()); }
    bool good() const override { return !fail_ && !eof_; }
    bool eof() const override { return eof_; }
};

inline uint64_t fnv64(const uint8_t * p, size_t n, uint64_t h = 1469598103934665603ull) {
    for (size_t i = 0; i < n; i++) { h ^= p[i]; h *= 1099511628211ull; }
    return h;
}
inline std::string hex64(uint64_t v) { char b[20]; snprintf(b, sizeof b, "%016llx", (unsigned long long)v); return b; }
