/* File-level bounded-exhaustive enumeration: object sequences x configurations written through File and
 * read back through File, each session run under the deterministic scheduler's default schedule (a hang is
 * an exact deadlock report).  Serves C01 (round trip), C04/C05 (files + expectations for the independent
 * Python decoder), C14 (determinism), C17 (class/code through File).
 *
 * args: set=alpha|universe|reflogs  maxlen=<k>  levels=0,6  conts=64,131072  rps=0,1  hp=0|1 (header patterns)
 *       shard=i/n  keep=<dir> (keep files + manifest.jsonl)  poison=<byte|-1>  slice=<n> (universe: every n-th)
 *       order=rev (C14: configurations enumerated in reverse order, so every session follows different earlier sessions)
 *       preopen=<k> (k failed open attempts on the same File object in front of every successful open)
 *       twice=1 (C14: write every session twice, interleaved with the previous one)
 */
#include <Vector/BLF.h>

#include <dirent.h>

#include <algorithm>
#include <set>
#include <sstream>

#include "alloccap.h"
#include "blfasm.h"
#include "blfdefaults.h"
#include "explore.h"
#include "memfile.h"
#include "universe.h"

using namespace Vector::BLF;

struct Viol { std::string prop, key, what, spec; };
static std::vector<Viol> g_viol;
static std::map<std::string, int> g_keys;
static long g_eval = 0, g_files = 0;
static std::set<uint64_t> g_distinct;

static void report(const std::string & prop, const std::string & key, const std::string & what, const std::string & spec) {
    if (g_keys[prop + "|" + key]++ == 0 && g_viol.size() < 200) g_viol.push_back({prop, key, what, spec});
}

struct Cur { char label[1024]; volatile long beat; };
static Cur * g_cur;

static std::vector<long> parse_list(const std::string & s) {
    std::vector<long> r;
    for (const char * p = s.c_str(); *p;) { r.push_back(strtol(p, (char **)&p, 0)); if (*p == ',') p++; }
    return r;
}

struct Elem {
    uni::Spec spec;
    std::string name;
    bool scaled_big = false;   /* payload = 5 containers + 3 */
    bool noise = false;        /* payload bytes from a fixed generator: incompressible, the compressor's worst case */
    bool deflt = false;        /* the default-constructed object of the class, nothing set (C17) */
};

static std::vector<Elem> alphabet() {
    std::vector<Elem> a;
    auto add = [&](const char * cls, std::vector<std::pair<std::string, uint64_t>> sel, std::map<std::string, size_t> shape, const char * name, bool big = false) {
        Elem e;
        e.spec.cls = refl::class_by_name(cls);
        if (!e.spec.cls) return;
        e.spec.sel = sel;
        e.spec.shape = shape;
        e.spec.deflen = 1;
        e.name = name;
        e.scaled_big = big;
        a.push_back(e);
    };
    add("CanMessage", {}, {}, "CanMessage");
    add("AppText", {}, {{"text", 1}}, "AppText1");
    add("AppText", {}, {{"text", 2}}, "AppText2");
    add("AppText", {}, {{"text", 3}}, "AppText3");
    add("AppText", {}, {{"text", 0}}, "AppText0");
    add("CanMessage2", {}, {{"data", 5}}, "CanMessage2");
    add("LinMessage2", {{"apiMajor", 1}}, {}, "LinMessage2v1");
    add("LinMessage2", {{"apiMajor", 2}}, {}, "LinMessage2v2");
    add("LinMessage2", {{"apiMajor", 3}}, {}, "LinMessage2v3");
    add("SerialEvent", {{"flags", 1}}, {{"general.data", 3}, {"general.timeStamps", 2}}, "SerialGeneral");
    add("SerialEvent", {{"flags", 4}}, {}, "SerialSingle");
    add("SerialEvent", {{"flags", 8}}, {}, "SerialCompact");
    add("AppText", {}, {{"text", 0}}, "AppTextBig", true);
    add("RestorePointContainer", {}, {{"data", 6}}, "RestorePointContainer");
    add("AppText", {}, {{"text", 0}}, "AppTextNoise", true);
    a.back().noise = true;
    return a;
}

struct Built {
    std::vector<uint8_t> enc;            /* codec encoding */
    std::vector<rv::Item> expect;        /* field dump of the ORIGINAL object (after write()'s pre-processing) */
    std::set<std::string> cmp;           /* fields that are part of the object's value: serialised ones + layout selectors */
    const std::type_info * ti;
    uint32_t type;
    bool ok = true;
};

static ObjectHeaderBase * make(const Elem & e, long cont) {
    if (e.deflt) return e.spec.cls->make();
    uni::Spec s = e.spec;
    if (e.scaled_big) s.shape["text"] = (size_t)std::min<long>(5 * cont + 3, 700 * 1024);
    ObjectHeaderBase * o = uni::build(s);
    if (e.noise)
        if (auto * at = dynamic_cast<AppText *>(o)) {
            /* one fixed representative of the incompressible inputs (the same bytes in every run) */
            uint64_t x = 0x9e3779b97f4a7c15ull;
            for (auto & ch : at->text) { x ^= x << 13; x ^= x >> 7; x ^= x << 17; ch = (char)(x >> 32); }
        }
    return o;
}

static Built prebuild(const Elem & e, long cont) {
    Built b;
    std::unique_ptr<ObjectHeaderBase> o(make(e, cont));
    MemFile mf;
    mf.record = true;
    o->write(mf);
    b.enc = mf.data;
    b.ti = &typeid(*o);
    b.type = (uint32_t)o->objectType;
    b.expect = rv::dump(*o);
    /* which fields does this object serialise? (layout map: a chunk whose source lies inside the field / its container) */
    rv::ListV l;
    refl::dispatch(*o, l);
    auto inside = [&](const void * a, size_t n) {
        for (auto & c : mf.chunks) { const char * sp = (const char *)c.src; if (sp >= (const char *)a && sp < (const char *)a + (n ? n : 1)) return true; }
        return false;
    };
    bool any = false;
    const char * ob = reinterpret_cast<const char *>(o.get());
    const refl::ClassInfo * ci = refl::class_of(*o);
    for (auto & c : mf.chunks) { const char * sp = (const char *)c.src; if (ci && sp >= ob && sp < ob + ci->size) any = true; }
    for (auto & sc : l.scalars)
        if (!any || inside(sc.addr, sc.size) || sc.path == "apiMajor" || sc.path.find("_present") != std::string::npos) b.cmp.insert(sc.path);
    for (auto & v : l.vars)
        if (!any || v.count == 0 || inside(v.data, v.count * v.elem)) b.cmp.insert(v.path);
    if (any)
        for (auto & rf : uni::required_fields(e.spec, *o))
            if (!b.cmp.count(rf)) b.cmp.insert(rf);   /* part of the selected layout variant: must come back (reported by the comparison) */
    std::unique_ptr<ObjectHeaderBase> o2(File::createObject(o->objectType));
    if (!o2) b.ok = false;
    return b;
}

static const uint8_t HP_UNIQUE[] = {0x11, 0x22, 0x33, 0x44, 0x55, 0x66, 0x77, 0x88, 0x99, 0xaa, 0xbb, 0xcc, 0xdd, 0xee, 0xf1, 0xf2};

static void set_header_pattern(FileStatistics & fs, int hp, blfasm::Header & h) {
    auto val = [&](int i, int width) -> uint64_t {
        uint64_t v = 0;
        switch (hp) {
        case 1: v = 0; break;
        case 2: v = 1; break;
        case 3: v = ~0ull; break;
        case 4: for (int k = 0; k < width; k++) v |= (uint64_t)HP_UNIQUE[(i + k) % 16] << (8 * k); break;
        }
        if (width < 8) v &= (1ull << (8 * width)) - 1;
        return v;
    };
    if (hp == 0) return;
    /* 5..7: the same fields supplied later in the session (the header is written at close()): 5 = pattern 4 after open(),
     * 6 = pattern 3 after the last write, 7 = pattern 2 before open() replaced by pattern 4 after the last write */
    fs.apiNumber = h.apiNumber = (uint32_t)val(0, 4);
    fs.applicationId = h.applicationId = (uint8_t)val(1, 1);
    fs.compressionLevel = h.compressionLevel = (uint8_t)val(2, 1);
    fs.applicationMajor = h.applicationMajor = (uint8_t)val(3, 1);
    fs.applicationMinor = h.applicationMinor = (uint8_t)val(4, 1);
    fs.applicationBuild = h.applicationBuild = (uint32_t)val(5, 4);
    uint16_t * st = &fs.measurementStartTime.year;
    uint16_t * lt = &fs.lastObjectTime.year;
    for (int i = 0; i < 8; i++) { st[i] = h.start[i] = (uint16_t)val(6 + i, 2); lt[i] = h.last[i] = (uint16_t)val(9 + i, 2); }
    for (int i = 0; i < 16; i++) fs.reservedFileStatistics[i] = h.reserved[i] = (uint32_t)val(i, 4);
    /* fields the library must overwrite: preset them with garbage */
    fs.fileSize = val(1, 8);
    fs.uncompressedFileSize = val(2, 8);
    fs.objectCount = (uint32_t)val(3, 4);
    fs.restorePointsOffset = h.restorePointsOffset = val(4, 8);   /* stays as supplied unless the trailer is enabled */
}

static std::string g_dir;
static long g_preopen = 0;   /* failed open attempts in front of the successful one (missing file / uncreatable file, alternating) */
static FILE * g_manifest;
static bool g_keep;

struct SessionResult { uint64_t fnv = 0; size_t size = 0; bool ok = true; };

/* one write session + one read session; returns file hash */
static SessionResult session(const std::vector<const Elem *> & seq, const std::vector<const Built *> & built, long level, long cont, long rp, int hp,
                             const std::string & path, const std::string & label, bool readback) {
    SessionResult sr;
    g_eval++;
    snprintf(g_cur->label, sizeof g_cur->label, "%s", label.c_str());
    g_cur->beat++;
    vs_config_t cfg;
    memset(&cfg, 0, sizeof cfg);
    cfg.fairness_k = 400;
    cfg.horizon = 400000000;
    cfg.change_at = -1;
    blfasm::Header hdr = library_header_defaults();
    uint32_t counted = 0;
    blfasm::Bytes stream;
    for (size_t i = 0; i < seq.size(); i++) {
        blfasm::put(stream, built[i]->enc.data(), built[i]->enc.size());
        if (built[i]->type != 115) counted++;
    }
    uint64_t cnt_after_write = 0, usz_after_write = 0;
    /* ---- write ---- */
    vs_begin(nullptr, 0, &cfg);
    {
        File f;
        f.compressionLevel = (int)level;
        f.writeRestorePoints = rp != 0;
        f.setDefaultLogContainerSize((uint32_t)cont);
        if (hp <= 4) set_header_pattern(f.fileStatistics, hp, hdr);
        if (hp == 7) set_header_pattern(f.fileStatistics, 2, hdr);
        for (long k = 0; k < g_preopen; k++) {
            if (k % 2 == 0) f.open((g_dir + "/does-not-exist.blf").c_str());
            else f.open((g_dir + "/no-such-dir/out.blf").c_str(), std::ios_base::out);
        }
        f.open(path.c_str(), std::ios_base::out);
        if (!f.is_open()) { report("C13", "open-out", "open() for writing failed", label); vs_end(nullptr); sr.ok = false; return sr; }
        if (hp == 5) set_header_pattern(f.fileStatistics, 4, hdr);
        for (size_t i = 0; i < seq.size(); i++) f.write(make(*seq[i], cont));
        if (hp == 6) set_header_pattern(f.fileStatistics, 3, hdr);
        if (hp == 7) set_header_pattern(f.fileStatistics, 4, hdr);
        f.close();
        cnt_after_write = f.currentObjectCount;
        usz_after_write = f.currentUncompressedFileSize;
    }
    vs_result_t vr;
    vs_end(&vr);
    if (vr.left_running) report("C06", "thread-left-write", "a worker thread outlived the write session", label);
    blfasm::Bytes file = blfasm::load(path);
    sr.fnv = fnv64(file.data(), file.size());
    sr.size = file.size();
    g_files++;
    g_distinct.insert(sr.fnv);
    /* in-process semantic verification (C04/C05 are decided by the independent Python decoder as well) */
    {
        std::string bad = blfasm::verify(file, stream, (size_t)cont, (int)level, rp != 0, counted, hdr);
        if (!bad.empty()) {
            bool header = bad.find("header") != std::string::npos || bad.find("restorePointsOffset") != std::string::npos;
            report(header ? "C05" : "C04", std::string(header ? "verify-header|" : "verify-containers|") + label.substr(0, label.find(" lv=")), bad, label);
        }
    }
    if (g_manifest) {
        blfasm::save(path + ".stream", stream);
        fprintf(g_manifest, "{\"file\":\"%s\",\"level\":%ld,\"cont\":%ld,\"rp\":%ld,\"hp\":%d,\"objects\":%zu,\"counted\":%u,\"stream_len\":%zu,\"stream_fnv\":\"%s\",\"label\":\"%s\",\"writer_count\":%llu,\"writer_usz\":%llu}\n",
                path.c_str(), level, cont, rp, hp, seq.size(), counted, stream.size(), hex64(fnv64(stream.data(), stream.size())).c_str(),
                vx::jesc(label).c_str(), (unsigned long long)cnt_after_write, (unsigned long long)usz_after_write);
    }
    if (!readback) return sr;
    /* ---- read back ---- */
    vs_begin(nullptr, 0, &cfg);
    {
        File f;
        for (long k = 0; k < g_preopen; k++) {
            if (k % 2 == 0) f.open((g_dir + "/does-not-exist.blf").c_str());
            else f.open((g_dir + "/no-such-dir/out.blf").c_str(), std::ios_base::out);
        }
        f.open(path.c_str());
        if (!f.is_open()) { report("C13", "open-in", "open() of the written file failed", label); vs_end(nullptr); sr.ok = false; return sr; }
        size_t got = 0;
        bool failed = false;
        for (;;) {
            ObjectHeaderBase * o = f.read();
            if (!o) break;
            if (got >= seq.size()) { report("C01", "extra|" + seq.back()->name, "more objects read back than written", label); delete o; failed = true; break; }
            const Built & b = *built[got];
            std::string nm = seq[got]->name;
            if (typeid(*o) != *b.ti || (uint32_t)o->objectType != b.type)
                report("C01", "type|" + nm, "object " + std::to_string(got) + " read back with another class or type code (" + std::to_string((uint32_t)o->objectType) + " vs " + std::to_string(b.type) + ")", label);
            else {
                std::vector<rv::Item> d = rv::dump(*o);
                std::string df = rv::diff(b.expect, d, [&](const std::string & p) {
                    std::string q = p;
                    size_t br = q.find('[');
                    if (q.size() > 5 && q.substr(q.size() - 5) == ".size") q = q.substr(0, q.size() - 5);
                    else if (br != std::string::npos) q = q.substr(0, br);
                    return b.cmp.count(q) == 0 && b.cmp.count(p) == 0;
                });
                if (!df.empty()) report("C01", "field|" + nm + "|" + df.substr(0, df.find(':')), "object " + std::to_string(got) + " (" + nm + ") read back with a changed field: " + df, label);
            }
            if (!f.good()) report("C01", "good|" + nm, "good() false after a delivered object", label);
            delete o;
            got++;
        }
        if (!failed) {
            if (got != seq.size()) report("C01", "count|" + (seq.empty() ? std::string("empty") : seq[std::min(got, seq.size() - 1)]->name), "only " + std::to_string(got) + " of " + std::to_string(seq.size()) + " objects read back", label);
            if (!f.eof() || f.good()) report("C01", "eof", "after the last object: eof() false or good() true", label);
            if (f.read() != nullptr) report("C01", "eof2", "object delivered after end of file", label);
        }
        f.close();
        if (!failed && got == seq.size()) {
            /* C05: reader's running counters against the header it read */
            if (f.currentObjectCount != f.fileStatistics.objectCount)
                report("C05", "reader-count", "reader ends with currentObjectCount " + std::to_string(f.currentObjectCount) + " but the header says " + std::to_string(f.fileStatistics.objectCount), label);
            if (f.currentUncompressedFileSize != f.fileStatistics.uncompressedFileSize)
                report("C05", "reader-usz", "reader ends with currentUncompressedFileSize " + std::to_string(f.currentUncompressedFileSize) + " but the header says " + std::to_string(f.fileStatistics.uncompressedFileSize), label);
        }
    }
    vs_end(&vr);
    if (vr.left_running) report("C06", "thread-left-read", "a worker thread outlived the read session", label);
    if (alloccap::big_requests) { report("C12", "alloc", "allocation above the cap requested during a valid session", label); alloccap::big_requests = 0; }
    return sr;
}

static void read_reference_logs(const std::string & dir) {
    /* C05: a reader that consumes a complete Vector-written file ends with counters equal to the header */
    std::vector<std::string> files;
    for (const char * sub : {"events_from_binlog", "events_from_converter"}) {
        std::string d = dir + "/" + sub;
        DIR * dp = opendir(d.c_str());
        if (!dp) continue;
        while (dirent * e = readdir(dp)) {
            std::string n = e->d_name;
            if (n.size() > 4 && n.substr(n.size() - 4) == ".blf") files.push_back(d + "/" + n);
        }
        closedir(dp);
    }
    std::sort(files.begin(), files.end());
    vs_config_t cfg;
    memset(&cfg, 0, sizeof cfg);
    cfg.fairness_k = 400;
    cfg.horizon = 400000000;
    cfg.change_at = -1;
    for (auto & p : files) {
        g_eval++;
        snprintf(g_cur->label, sizeof g_cur->label, "%s", p.c_str());
        g_cur->beat++;
        std::string label = p.substr(p.rfind('/', p.rfind('/') - 1) + 1);
        vs_begin(nullptr, 0, &cfg);
        {
            File f;
            f.open(p.c_str());
            if (!f.is_open()) { vs_end(nullptr); continue; }
            long n = 0;
            while (ObjectHeaderBase * o = f.read()) { delete o; n++; }
            f.close();
            g_distinct.insert(fnv64((const uint8_t *)p.data(), p.size()));
            if (f.currentObjectCount != f.fileStatistics.objectCount)
                report("C05", "ref-count|" + label, "reader ends with currentObjectCount " + std::to_string(f.currentObjectCount) + ", header objectCount " + std::to_string(f.fileStatistics.objectCount), label);
            if (f.currentUncompressedFileSize != f.fileStatistics.uncompressedFileSize)
                report("C05", "ref-usz|" + label, "reader ends with currentUncompressedFileSize " + std::to_string(f.currentUncompressedFileSize) + ", header " + std::to_string(f.fileStatistics.uncompressedFileSize), label);
        }
        vs_result_t vr;
        vs_end(&vr);
    }
}

int main(int argc, char ** argv) {
    vx::Args args(argc, argv);
    std::string set = args.str("set", "alpha");
    int shard = 0, nshards = 1;
    std::string sh = args.str("shard", "");
    if (!sh.empty()) sscanf(sh.c_str(), "%d/%d", &shard, &nshards);
    std::vector<long> levels = parse_list(args.str("levels", "0")), conts = parse_list(args.str("conts", "64")), rps = parse_list(args.str("rps", "0")),
                      hps = parse_list(args.str("hps", "0"));
    long maxlen = args.num("maxlen", 2);
    long slice = args.num("slice", 1);
    bool twice = args.num("twice", 0) != 0;
    g_preopen = args.num("preopen", 0);
    if (args.str("order", "") == "rev") {
        /* C14: the same sessions after different earlier activity in the process */
        for (auto * l : {&levels, &conts, &rps, &hps}) std::reverse(l->begin(), l->end());
    }
    bool readback = args.num("readback", 1) != 0;
    alloccap::poison = (int)args.num("poison", -1);
    alloccap::cap = (size_t)256 << 20;
    std::string keep = args.str("keep", "");
    g_keep = !keep.empty();
    g_dir = g_keep ? keep : vx::make_scratch();
    g_cur = (Cur *)mmap(0, sizeof(Cur), PROT_READ | PROT_WRITE, MAP_SHARED | MAP_ANONYMOUS, -1, 0);
    std::string errfile = vx::make_scratch() + "/err.txt";
    double t0 = vx::now_s();
    fflush(stdout);
    pid_t pid = fork();
    if (pid == 0) {
        int fd = open(errfile.c_str(), O_WRONLY | O_CREAT | O_TRUNC, 0644);
        if (fd >= 0) { dup2(fd, 2); close(fd); }
        if (g_keep) g_manifest = fopen((g_dir + "/manifest." + std::to_string(shard) + ".jsonl").c_str(), "w");
        std::vector<std::string> samples;
        long ordinal = 0;
        if (set == "reflogs") {
            read_reference_logs(args.str("refdir", ""));
        } else {
            std::vector<Elem> A;
            if (set == "alpha") A = alphabet();
            else if (set == "defaults") {
                /* C17: every class's default-constructed object through File, alone in a file */
                for (auto & c : refl::classes()) {
                    if (std::string(c.name) == "LogContainer") continue;
                    Elem e;
                    e.spec.cls = &c;
                    e.name = std::string("default-constructed ") + c.name;
                    e.deflt = true;
                    A.push_back(e);
                }
                maxlen = 1;
            } else {
                uni::Options uo;
                uo.big = args.num("big", 0) != 0;
                uo.all_patterns = args.num("patterns", 1) != 0;
                std::vector<uni::Spec> U = uni::universe(uo, args.str("class", ""));
                for (size_t i = 0; i < U.size(); i += (size_t)slice) { Elem e; e.spec = U[i]; e.name = U[i].label(); A.push_back(e); }
                maxlen = 1;
            }
            /* sequences of indices */
            std::vector<std::vector<int>> seqs;
            if (set == "alpha") {
                seqs.push_back({});
                std::vector<std::vector<int>> cur = {{}};
                for (long l = 1; l <= maxlen; l++) {
                    std::vector<std::vector<int>> nxt;
                    for (auto & s : cur) for (int i = 0; i < (int)A.size(); i++) { auto t = s; t.push_back(i); nxt.push_back(t); }
                    for (auto & s : nxt) seqs.push_back(s);
                    cur = nxt;
                }
            } else
                for (int i = 0; i < (int)A.size(); i++) seqs.push_back({i});
            for (long cont : conts) {
                std::vector<Built> B;
                for (auto & e : A) B.push_back(prebuild(e, cont));
                for (long level : levels) for (long rp : rps) for (long hp : hps)
                    for (auto & s : seqs) {
                        if ((ordinal++ % nshards) != shard) continue;
                        std::vector<const Elem *> se;
                        std::vector<const Built *> sb;
                        std::string label;
                        bool ok = true;
                        for (int i : s) { se.push_back(&A[i]); sb.push_back(&B[i]); label += (label.empty() ? "" : ",") + A[i].name; if (!B[i].ok) ok = false; }
                        if (!ok) continue;
                        if (label.empty()) label = "(empty)";
                        label = "[" + label + "] lv=" + std::to_string(level) + " cont=" + std::to_string(cont) + " rp=" + std::to_string(rp) + " hp=" + std::to_string(hp);
                        if (g_preopen) label += " preopen=" + std::to_string(g_preopen);
                        std::string path = g_dir + "/f" + std::to_string(shard) + "_" + std::to_string(g_keep ? ordinal : 0) + ".blf";
                        SessionResult r1 = session(se, sb, level, cont, rp, (int)hp, path, label, readback);
                        if (twice) {
                            /* C14: the same session again, after other activity in the process, must give the same bytes */
                            std::string path2 = g_dir + "/g" + std::to_string(shard) + ".blf";
                            SessionResult r2 = session(se, sb, level, cont, rp, (int)hp, path2, label, false);
                            if (r1.ok && r2.ok && (r1.fnv != r2.fnv || r1.size != r2.size))
                                report("C14", "twice|" + label.substr(0, label.find(" lv=")), "the same objects and configuration written twice in one process give different files", label);
                        }
                        if (g_manifest && r1.ok) { /* fnv of the file for cross-run comparisons */ }
                        if (!g_keep) {}
                        if (samples.size() < 3 && (ordinal % 1013) == 7) samples.push_back(label);
                        printf("F %s %016llx %zu\n", vx::jesc(label).c_str(), (unsigned long long)r1.fnv, r1.size);
                    }
            }
        }
        if (g_manifest) fclose(g_manifest);
        std::ostringstream o;
        o << "{\"harness\":\"file\",\"params\":" << args.json() << ",\"evaluations\":" << g_eval << ",\"files\":" << g_files << ",\"distinct\":" << g_distinct.size() << ",\"samples\":[";
        for (size_t i = 0; i < samples.size(); i++) o << (i ? "," : "") << "\"" << vx::jesc(samples[i]) << "\"";
        o << "],\"violations\":[";
        for (size_t i = 0; i < g_viol.size(); i++) {
            auto & v = g_viol[i];
            o << (i ? "," : "") << "{\"prop\":\"" << v.prop << "\",\"key\":\"" << vx::jesc(v.key) << "\",\"what\":\"" << vx::jesc(v.what) << "\",\"spec\":\"" << vx::jesc(v.spec)
              << "\",\"count\":" << g_keys[v.prop + "|" + v.key] << "}";
        }
        o << "],\"wall_s\":" << (vx::now_s() - t0) << "}";
        printf("%s\n", o.str().c_str());
        fflush(stdout);
        _exit(g_viol.empty() ? 0 : 3);
    }
    int status = 0;
    /* a session that spins without a synchronisation point is invisible to the scheduler: wall-clock watchdog on the
     * session counter (one session takes milliseconds; 300 s without a new one is a session that does not end) */
    bool stuck = false;
    {
        long last = -1;
        double since = vx::now_s();
        for (useconds_t nap = 200;;) {
            pid_t r = waitpid(pid, &status, WNOHANG);
            if (r == pid) break;
            long b = g_cur->beat;
            if (b != last) { last = b; since = vx::now_s(); }
            else if (vx::now_s() - since > args.real("watchdog", 300)) { kill(pid, SIGKILL); waitpid(pid, &status, 0); stuck = true; break; }
            usleep(nap);
            if (nap < 50000) nap *= 2;
        }
    }
    int rc = 0;
    if (stuck) {
        printf("\n{\"harness\":\"file\",\"params\":%s,\"evaluations\":1,\"files\":0,\"distinct\":0,\"samples\":[],\"violations\":[{\"prop\":\"C06\",\"key\":\"no-return|%s\",\"what\":\"the session does not end (no progress for 300 s, no scheduling point reached)\",\"spec\":\"%s\",\"count\":1}],\"wall_s\":0}\n",
               args.json().c_str(), vx::jesc(std::string(g_cur->label).substr(0, 60)).c_str(), vx::jesc(g_cur->label).c_str());
        rc = 1;
    } else if (WIFEXITED(status) && (WEXITSTATUS(status) == 0 || WEXITSTATUS(status) == 3)) rc = WEXITSTATUS(status) ? 1 : 0;
    else {
        std::string err = vx::read_tail(errfile, 3000), sum;
        std::istringstream es(err);
        for (std::string line; std::getline(es, line);)
            if (line.find("SUMMARY") != std::string::npos || line.find("runtime error") != std::string::npos || line.find("vs_fatal") != std::string::npos) { sum = line; break; }
        std::string kind = (WIFEXITED(status) && WEXITSTATUS(status) == 10) ? "deadlock/livelock" : "crash";
        /* the child's last output line may be cut off: start a new one */
        printf("\n{\"harness\":\"file\",\"params\":%s,\"evaluations\":1,\"files\":0,\"distinct\":0,\"samples\":[],\"violations\":[{\"prop\":\"%s\",\"key\":\"%s|%s\",\"what\":\"%s during the session: %s\",\"spec\":\"%s\",\"count\":1}],\"wall_s\":0}\n",
               args.json().c_str(), kind == "crash" ? "C10" : "C06", kind.c_str(), vx::jesc(std::string(g_cur->label).substr(0, 60)).c_str(), kind.c_str(), vx::jesc(sum).c_str(), vx::jesc(g_cur->label).c_str());
        rc = 1;
    }
    if (!g_keep) vx::remove_scratch(vx::make_scratch());
    else { unlink(errfile.c_str()); vx::remove_scratch(vx::make_scratch()); }
    return rc;
}
