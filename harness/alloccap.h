/* Allocation seam: replaces operator new/delete in the harness executable.
 * Requests above the cap throw std::bad_alloc (a memory-limited host) and are counted;
 * live bytes and their high-water mark are tracked for the bounded-buffering property.
 * Include in exactly one TU of a harness. */
#pragma once
#include <malloc.h>

#include <atomic>
#include <cstdlib>
#include <new>

namespace alloccap {
static size_t cap = (size_t)64 << 20;
static volatile long big_requests = 0;
static volatile size_t last_big = 0;
static volatile long live_bytes = 0, peak_bytes = 0, live_blocks = 0, total_allocs = 0;
static volatile int poison = -1;  /* >=0: fill fresh blocks with this byte */
inline void reset_peak() { peak_bytes = live_bytes; }
}

static inline void * vv_alloc(std::size_t n) {
    if (n > __atomic_load_n(&alloccap::cap, __ATOMIC_RELAXED)) {
        __atomic_fetch_add(&alloccap::big_requests, 1, __ATOMIC_RELAXED);
        __atomic_store_n(&alloccap::last_big, n, __ATOMIC_RELAXED);
        throw std::bad_alloc();
    }
    void * p = malloc(n ? n : 1);
    if (!p) throw std::bad_alloc();
    { int po = __atomic_load_n(&alloccap::poison, __ATOMIC_RELAXED); if (po >= 0) __builtin_memset(p, po, n); }
    long u = (long)malloc_usable_size(p);
    long l = __atomic_add_fetch(&alloccap::live_bytes, u, __ATOMIC_RELAXED);
    __atomic_fetch_add(&alloccap::live_blocks, 1, __ATOMIC_RELAXED);
    __atomic_fetch_add(&alloccap::total_allocs, 1, __ATOMIC_RELAXED);
    if (l > __atomic_load_n(&alloccap::peak_bytes, __ATOMIC_RELAXED)) __atomic_store_n(&alloccap::peak_bytes, l, __ATOMIC_RELAXED);
    return p;
}
static inline void vv_free(void * p) noexcept {
    if (!p) return;
    long u = (long)malloc_usable_size(p);
    __atomic_fetch_sub(&alloccap::live_bytes, u, __ATOMIC_RELAXED);
    __atomic_fetch_sub(&alloccap::live_blocks, 1, __ATOMIC_RELAXED);
    { int po = __atomic_load_n(&alloccap::poison, __ATOMIC_RELAXED); if (po >= 0) __builtin_memset(p, (po ^ 0x5a) & 0xff, (size_t)u); }
    free(p);
}
void * operator new(std::size_t n) { return vv_alloc(n); }
void * operator new[](std::size_t n) { return vv_alloc(n); }
void * operator new(std::size_t n, const std::nothrow_t &) noexcept { try { return vv_alloc(n); } catch (...) { return nullptr; } }
void * operator new[](std::size_t n, const std::nothrow_t &) noexcept { try { return vv_alloc(n); } catch (...) { return nullptr; } }
void operator delete(void * p) noexcept { vv_free(p); }
void operator delete[](void * p) noexcept { vv_free(p); }
void operator delete(void * p, std::size_t) noexcept { vv_free(p); }
void operator delete[](void * p, std::size_t) noexcept { vv_free(p); }
