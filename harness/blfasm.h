/* Reference assembler for BLF files: written from the format description (144-byte header,
 * LOG_CONTAINER objects, objectSize %% 4 padding), independent of File/LogContainer code.
 * Used to build read-session inputs and as the expected result of write sessions. */
#pragma once
#include <zlib.h>

#include <cstdint>
#include <cstring>
#include <fstream>
#include <string>
#include <vector>

namespace blfasm {

typedef std::vector<uint8_t> Bytes;

inline void put(Bytes & b, const void * p, size_t n) { b.insert(b.end(), (const uint8_t *)p, (const uint8_t *)p + n); }
template<class T> inline void putv(Bytes & b, T v) { put(b, &v, sizeof v); }

struct Header {
    uint32_t apiNumber = 4080200;
    uint8_t applicationId = 0, compressionLevel = 1, applicationMajor = 0, applicationMinor = 0;
    uint64_t fileSize = 0, uncompressedFileSize = 0;
    uint32_t objectCount = 0, applicationBuild = 0;
    uint16_t start[8] = {0}, last[8] = {0};
    uint64_t restorePointsOffset = 0;
    uint32_t reserved[16] = {0};
};

inline Bytes header_bytes(const Header & h) {
    Bytes b;
    putv<uint32_t>(b, 0x47474F4C);
    putv<uint32_t>(b, 144);
    putv(b, h.apiNumber);
    putv(b, h.applicationId);
    putv(b, h.compressionLevel);
    putv(b, h.applicationMajor);
    putv(b, h.applicationMinor);
    putv(b, h.fileSize);
    putv(b, h.uncompressedFileSize);
    putv(b, h.objectCount);
    putv(b, h.applicationBuild);
    put(b, h.start, 16);
    put(b, h.last, 16);
    putv(b, h.restorePointsOffset);
    put(b, h.reserved, 64);
    return b;
}

inline Bytes container(const uint8_t * p, size_t n, int level) {
    Bytes payload;
    uint16_t method = 0;
    if (level == 0) payload.assign(p, p + n);
    else {
        method = 2;
        uLong cap = compressBound((uLong)n);
        payload.resize(cap);
        static const uint8_t dummy = 0;
        compress2(payload.data(), &cap, n ? p : &dummy, (uLong)n, level);
        payload.resize(cap);
    }
    Bytes b;
    uint32_t objectSize = 32 + (uint32_t)payload.size();
    putv<uint32_t>(b, 0x4A424F4C);
    putv<uint16_t>(b, 16);
    putv<uint16_t>(b, 1);
    putv<uint32_t>(b, objectSize);
    putv<uint32_t>(b, 10);
    putv<uint16_t>(b, method);
    putv<uint16_t>(b, 0);
    putv<uint32_t>(b, 0);
    putv<uint32_t>(b, (uint32_t)n);
    putv<uint32_t>(b, 0);
    put(b, payload.data(), payload.size());
    for (uint32_t i = 0; i < objectSize % 4; i++) b.push_back(0);
    return b;
}

struct Layout { std::vector<size_t> container_off, container_len; };

/* full file: header + stream cut into containers of `cont` bytes (+ the empty trailer
 * container when restore points are on); statistics as File::close() is specified to set them */
inline Bytes file_bytes(const Bytes & stream, size_t cont, int level, bool restorePoints, uint32_t objectCount,
                        Header h = Header(), Layout * lay = nullptr, bool final_header = true, bool empty_tail = false) {
    Bytes body;
    uint64_t unc = 144;
    size_t pos = 0;
    while (pos < stream.size()) {
        size_t n = stream.size() - pos < cont ? stream.size() - pos : cont;
        Bytes c = container(stream.data() + pos, n, level);
        if (lay) { lay->container_off.push_back(144 + body.size()); lay->container_len.push_back(c.size()); }
        put(body, c.data(), c.size());
        unc += 32 + n;
        pos += n;
    }
    if (empty_tail) {
        /* the writer flushes a final, possibly empty, container when the stream ends exactly on a
         * container boundary; an empty container is well formed and carries no objects */
        Bytes c = container(nullptr, 0, level);
        if (lay) { lay->container_off.push_back(144 + body.size()); lay->container_len.push_back(c.size()); }
        put(body, c.data(), c.size());
        unc += 32;
    }
    if (restorePoints) {
        h.restorePointsOffset = 144 + body.size();
        Bytes c = container(nullptr, 0, level);
        if (lay) { lay->container_off.push_back(144 + body.size()); lay->container_len.push_back(c.size()); }
        put(body, c.data(), c.size());
        unc += 32;
    }
    if (final_header) {
        h.fileSize = 144 + body.size();
        h.uncompressedFileSize = unc;
        h.objectCount = objectCount;
    } else {
        h.fileSize = 0; h.uncompressedFileSize = 0; h.objectCount = 0; h.restorePointsOffset = 0;
    }
    Bytes f = header_bytes(h);
    put(f, body.data(), body.size());
    return f;
}

template<class T> inline T getv(const Bytes & b, size_t off) { T v = T(); if (off + sizeof(T) <= b.size()) memcpy(&v, &b[off], sizeof(T)); return v; }

/* Semantic verification of a finished file against what the property demands (not against one particular byte image):
 * header, only well-formed log containers, method / zlib level class as configured, inflate to the declared size, no
 * container above the configured size, objectSize % 4 zero bytes after each container, concatenated payload == stream,
 * exact statistics, caller-supplied header fields verbatim.  Returns "" or the first problem. */
inline std::string verify(const Bytes & f, const Bytes & stream, size_t cont, int level, bool restorePoints, uint32_t objectCount, const Header & caller) {
    auto S = [](size_t v) { return std::to_string(v); };
    if (f.size() < 144) return "file shorter than the 144-byte header";
    if (getv<uint32_t>(f, 0) != 0x47474F4C) return "bad file signature";
    if (getv<uint32_t>(f, 4) != 144) return "statisticsSize " + S(getv<uint32_t>(f, 4));
    size_t pos = 144, last_off = 0, ncont = 0;
    uint64_t unc = 144;
    Bytes got;
    while (pos < f.size()) {
        std::string at = "container " + S(ncont) + " at offset " + S(pos) + ": ";
        if (pos + 32 > f.size()) return at + "truncated header";
        if (getv<uint32_t>(f, pos) != 0x4A424F4C) return at + "no object signature";
        if (getv<uint16_t>(f, pos + 4) != 16 || getv<uint16_t>(f, pos + 6) != 1) return at + "header size / version not 16 / 1";
        uint32_t osz = getv<uint32_t>(f, pos + 8);
        if (getv<uint32_t>(f, pos + 12) != 10) return at + "object type " + S(getv<uint32_t>(f, pos + 12)) + " is not a log container";
        if (osz < 32 || pos + osz > f.size()) return at + "object size " + S(osz) + " does not fit";
        uint16_t method = getv<uint16_t>(f, pos + 16);
        uint32_t usz = getv<uint32_t>(f, pos + 24);
        if (getv<uint16_t>(f, pos + 18) || getv<uint32_t>(f, pos + 20) || getv<uint32_t>(f, pos + 28)) return at + "reserved header fields not zero";
        if (usz > cont) return at + "holds " + S(usz) + " bytes, configured container size " + S(cont);
        const uint8_t * pay = f.data() + pos + 32;
        size_t plen = osz - 32;
        if (level == 0) {
            if (method != 0) return at + "method " + S(method) + " at level 0";
            if (plen != usz) return at + "stored payload " + S(plen) + " != declared uncompressed size " + S(usz);
            got.insert(got.end(), pay, pay + plen);
        } else {
            if (method != 2) return at + "method " + S(method) + " at level " + S(level);
            if (plen < 2 || (pay[0] & 0x0f) != 8 || ((pay[0] << 8) | pay[1]) % 31 != 0) return at + "invalid zlib header";
            int cls = pay[1] >> 6, want = level == 1 ? 0 : level <= 5 ? 1 : level == 6 ? 2 : 3;
            if (cls != want) return at + "zlib level class " + S(cls) + " does not match level " + S(level);
            Bytes out(usz ? usz : 1);
            uLong n = usz;
            int rc = uncompress(out.data(), &n, pay, (uLong)plen);
            if (rc != Z_OK || n != usz) return at + "does not inflate to the declared size";
            got.insert(got.end(), out.begin(), out.begin() + usz);
        }
        size_t pad = osz % 4;
        if (pos + osz + pad > f.size()) return at + "padding missing";
        for (size_t i = 0; i < pad; i++) if (f[pos + osz + i]) return at + "padding not zero";
        unc += 32 + usz;
        last_off = pos;
        ncont++;
        pos += osz + pad;
    }
    if (got != stream) {
        size_t d = 0;
        while (d < got.size() && d < stream.size() && got[d] == stream[d]) d++;
        return "concatenated payload differs from the objects' encodings at offset " + S(d) + " (" + S(got.size()) + " vs " + S(stream.size()) + " bytes)";
    }
    if (getv<uint64_t>(f, 16) != f.size()) return "header fileSize " + S(getv<uint64_t>(f, 16)) + ", size on disk " + S(f.size());
    if (getv<uint64_t>(f, 24) != unc) return "header uncompressedFileSize " + S(getv<uint64_t>(f, 24)) + ", recomputed " + S(unc);
    if (getv<uint32_t>(f, 32) != objectCount) return "header objectCount " + S(getv<uint32_t>(f, 32)) + ", objects written " + S(objectCount);
    if (restorePoints) {
        if (ncont == 0 || getv<uint64_t>(f, 72) != last_off) return "restorePointsOffset " + S(getv<uint64_t>(f, 72)) + " does not designate the trailing container";
    } else if (getv<uint64_t>(f, 72) != caller.restorePointsOffset) return "restorePointsOffset changed although the trailer is disabled";
    Header h = caller;
    h.fileSize = getv<uint64_t>(f, 16);
    h.uncompressedFileSize = getv<uint64_t>(f, 24);
    h.objectCount = getv<uint32_t>(f, 32);
    h.restorePointsOffset = getv<uint64_t>(f, 72);
    Bytes hb = header_bytes(h);
    for (size_t i = 0; i < 144; i++)
        if (hb[i] != f[i]) return "caller-supplied header field at offset " + S(i) + " not stored verbatim";
    return "";
}

inline bool save(const std::string & path, const Bytes & b) {
    std::ofstream o(path, std::ios::binary | std::ios::trunc);
    o.write((const char *)b.data(), (std::streamsize)b.size());
    return o.good();
}
inline Bytes load(const std::string & path) {
    std::ifstream in(path, std::ios::binary);
    return Bytes((std::istreambuf_iterator<char>(in)), std::istreambuf_iterator<char>());
}

}  // namespace blfasm
