/* Reference assembler for BLF files: written from the format description (144-byte header,
 * LOG_CONTAINER objects, objectSize %% 4 padding), independent of File/LogContainer code.
 * Used to build read-session inputs and as the expected result of write sessions. */
#pragma once
#include <zlib.h>

#include <cstdint>
#include <cstring>
#include <fstream>
#include <string>
#include <vector>

namespace blfasm {

typedef std::vector<uint8_t> Bytes;

inline void put(Bytes & b, const void * p, size_t n) { b.insert(b.end(), (const uint8_t *)p, (const uint8_t *)p + n); }
template<class T> inline void putv(Bytes & b, T v) { put(b, &v, sizeof v); }

struct Header {
    uint32_t apiNumber = 4080200;
    uint8_t applicationId = 0, compressionLevel = 1, applicationMajor = 0, applicationMinor = 0;
    uint64_t fileSize = 0, uncompressedFileSize = 0;
    uint32_t objectCount = 0, applicationBuild = 0;
    uint16_t start[8] = {0}, last[8] = {0};
    uint64_t restorePointsOffset = 0;
    uint32_t reserved[16] = {0};
};

inline Bytes header_bytes(const Header & h) {
    Bytes b;
    putv<uint32_t>(b, 0x47474F4C);
    putv<uint32_t>(b, 144);
    putv(b, h.apiNumber);
    putv(b, h.applicationId);
    putv(b, h.compressionLevel);
    putv(b, h.applicationMajor);
    putv(b, h.applicationMinor);
    putv(b, h.fileSize);
    putv(b, h.uncompressedFileSize);
    putv(b, h.objectCount);
    putv(b, h.applicationBuild);
    put(b, h.start, 16);
    put(b, h.last, 16);
    putv(b, h.restorePointsOffset);
    put(b, h.reserved, 64);
    return b;
}

inline Bytes container(const uint8_t * p, size_t n, int level) {
    Bytes payload;
    uint16_t method = 0;
    if (level == 0) payload.assign(p, p + n);
    else {
        method = 2;
        uLong cap = compressBound((uLong)n);
        payload.resize(cap);
        static const uint8_t dummy = 0;
        compress2(payload.data(), &cap, n ? p : &dummy, (uLong)n, level);
        payload.resize(cap);
    }
    Bytes b;
    uint32_t objectSize = 32 + (uint32_t)payload.size();
    putv<uint32_t>(b, 0x4A424F4C);
    putv<uint16_t>(b, 16);
    putv<uint16_t>(b, 1);
    putv<uint32_t>(b, objectSize);
    putv<uint32_t>(b, 10);
    putv<uint16_t>(b, method);
    putv<uint16_t>(b, 0);
    putv<uint32_t>(b, 0);
    putv<uint32_t>(b, (uint32_t)n);
    putv<uint32_t>(b, 0);
    put(b, payload.data(), payload.size());
    for (uint32_t i = 0; i < objectSize % 4; i++) b.push_back(0);
    return b;
}

struct Layout { std::vector<size_t> container_off, container_len; };

/* full file: header + stream cut into containers of `cont` bytes (+ the empty trailer
 * container when restore points are on); statistics as File::close() is specified to set them */
inline Bytes file_bytes(const Bytes & stream, size_t cont, int level, bool restorePoints, uint32_t objectCount,
                        Header h = Header(), Layout * lay = nullptr, bool final_header = true, bool empty_tail = false) {
    Bytes body;
    uint64_t unc = 144;
    size_t pos = 0;
    while (pos < stream.size()) {
        size_t n = stream.size() - pos < cont ? stream.size() - pos : cont;
        Bytes c = container(stream.data() + pos, n, level);
        if (lay) { lay->container_off.push_back(144 + body.size()); lay->container_len.push_back(c.size()); }
        put(body, c.data(), c.size());
        unc += 32 + n;
        pos += n;
    }
    if (empty_tail) {
        /* the writer flushes a final, possibly empty, container when the stream ends exactly on a
         * container boundary; an empty container is well formed and carries no objects */
        Bytes c = container(nullptr, 0, level);
        if (lay) { lay->container_off.push_back(144 + body.size()); lay->container_len.push_back(c.size()); }
        put(body, c.data(), c.size());
        unc += 32;
    }
    if (restorePoints) {
        h.restorePointsOffset = 144 + body.size();
        Bytes c = container(nullptr, 0, level);
        if (lay) { lay->container_off.push_back(144 + body.size()); lay->container_len.push_back(c.size()); }
        put(body, c.data(), c.size());
        unc += 32;
    }
    if (final_header) {
        h.fileSize = 144 + body.size();
        h.uncompressedFileSize = unc;
        h.objectCount = objectCount;
    } else {
        h.fileSize = 0; h.uncompressedFileSize = 0; h.objectCount = 0; h.restorePointsOffset = 0;
    }
    Bytes f = header_bytes(h);
    put(f, body.data(), body.size());
    return f;
}

inline bool save(const std::string & path, const Bytes & b) {
    std::ofstream o(path, std::ios::binary | std::ios::trunc);
    o.write((const char *)b.data(), (std::streamsize)b.size());
    return o.good();
}
inline Bytes load(const std::string & path) {
    std::ifstream in(path, std::ios::binary);
    return Bytes((std::istreambuf_iterator<char>(in)), std::istreambuf_iterator<char>());
}

}  // namespace blfasm
