/* Codec-level bounded-exhaustive enumeration over the object universe U (no threads, no files).
 *
 * mode=frame   C03 framing oracle + codec round trip (tagged C01) on every object of U
 * mode=c17     factory / constructor / poison checks for every type code and class
 * args: shard=i/n big=0|1 pad=<codes> nopad=<codes> class=<only this class> list=1
 */
#include <Vector/BLF.h>
#include <Vector/BLF/VarObjectHeader.h>

#include <algorithm>
#include <cstdio>
#include <cstdlib>
#include <set>
#include <sstream>

#include "alloccap.h"
#include "explore.h"
#include "memfile.h"
#include "universe.h"

using namespace Vector::BLF;

struct Viol { std::string prop, key, what, spec; };
static std::vector<Viol> g_viol;
static std::map<std::string, int> g_keys;
static long g_eval = 0;
static std::set<std::string> g_distinct;

static void report(const std::string & prop, const std::string & key, const std::string & what, const std::string & spec) {
    if (g_keys[prop + "|" + key]++ == 0) g_viol.push_back({prop, key, what, spec});
}

static std::set<uint32_t> parse_set(const std::string & s) {
    std::set<uint32_t> r;
    for (const char * p = s.c_str(); *p;) { r.insert((uint32_t)strtoul(p, (char **)&p, 10)); if (*p == ',') p++; }
    return r;
}

static uint32_t rd32(const std::vector<uint8_t> & b, size_t off) { uint32_t v = 0; if (off + 4 <= b.size()) memcpy(&v, &b[off], 4); return v; }
static uint16_t rd16(const std::vector<uint8_t> & b, size_t off) { uint16_t v = 0; if (off + 2 <= b.size()) memcpy(&v, &b[off], 2); return v; }

static std::string selkey(const uni::Spec & s) {
    std::string k = s.cls->name;
    if (s.code) k += "#" + std::to_string(s.code);
    for (auto & kv : s.sel) if (kv.first != "objectSize") k += "," + kv.first + "=" + std::to_string(kv.second);
    return k;
}

static std::map<std::string, std::set<std::string>> g_serialised, g_allfields;

static void check_frame(const uni::Spec & spec, const std::set<uint32_t> & pad, const std::set<uint32_t> & nopad) {
    std::unique_ptr<ObjectHeaderBase> o(uni::build(spec));
    std::string lab = spec.label(), sk = selkey(spec);
    g_eval++;
    MemFile mf;
    mf.record = true;
    o->write(mf);
    const std::vector<uint8_t> & E = mf.data;
    g_distinct.insert(hex64(fnv64(E.data(), E.size())));
    if (E.size() < 16 || rd32(E, 0) != 0x4A424F4C) { report("C03", sk + "|signature", "emitted bytes do not start with a base header / signature", lab); return; }
    uint16_t headerSize = rd16(E, 4);
    uint32_t objectSize = rd32(E, 8), type = rd32(E, 12);
    /* (c) header bytes attributed to header members */
    const char * hb = reinterpret_cast<const char *>(static_cast<ObjectHeaderBase *>(o.get()));
    size_t hsz = sizeof(ObjectHeaderBase);
    if (auto * h = dynamic_cast<ObjectHeader *>(o.get())) { hb = reinterpret_cast<const char *>(h); hsz = sizeof(ObjectHeader); }
    else if (auto * h2 = dynamic_cast<ObjectHeader2 *>(o.get())) { hb = reinterpret_cast<const char *>(h2); hsz = sizeof(ObjectHeader2); }
    else if (auto * hv = dynamic_cast<VarObjectHeader *>(o.get())) { hb = reinterpret_cast<const char *>(hv); hsz = sizeof(VarObjectHeader); }
    size_t hdr_bytes = 0;
    for (auto & c : mf.chunks) {
        const char * s = (const char *)c.src;
        if (s >= hb && s < hb + hsz) hdr_bytes += c.len;
    }
    if (hdr_bytes != headerSize)
        report("C03", sk + "|headerSize", "headerSize field " + std::to_string(headerSize) + " but " + std::to_string(hdr_bytes) + " header bytes emitted", lab);
    /* (d) object size and padding */
    if (E.size() < objectSize) {
        report("C03", sk + "|objectSize-larger", "objectSize field " + std::to_string(objectSize) + " but only " + std::to_string(E.size()) + " bytes emitted", lab);
    } else {
        size_t padn = E.size() - objectSize;
        bool zero = true;
        for (size_t i = objectSize; i < E.size(); i++) if (E[i]) zero = false;
        size_t want = objectSize % 4;
        if (pad.count(type)) {
            if (padn != want) report("C03", sk + "|padding", "padding type: " + std::to_string(padn) + " bytes emitted after objectSize " + std::to_string(objectSize) + ", expected objectSize%4 = " + std::to_string(want), lab);
        } else if (nopad.count(type)) {
            if (padn != 0) report("C03", sk + "|padding", "non-padding type: " + std::to_string(padn) + " bytes emitted beyond objectSize " + std::to_string(objectSize), lab);
        } else {
            if (padn != 0 && padn != want) report("C03", sk + "|objectSize", "objectSize field " + std::to_string(objectSize) + " but " + std::to_string(E.size()) + " bytes emitted", lab);
        }
        if (!zero && (padn == want || padn == 0)) report("C03", sk + "|padding-nonzero", "padding bytes are not zero", lab);
    }
    /* (e) length fields equal the payload emitted */
    rv::ListV l;
    refl::dispatch(*o, l);
    auto chunk_of = [&](const void * p) -> const MemFile::Chunk * {
        for (auto & c : mf.chunks) if (c.src == p) return &c;
        return nullptr;
    };
    for (auto & pr : refl::resize_pairs()) {
        for (auto & v : l.vars) {
            std::string leaf = v.path.substr(v.path.rfind('.') == std::string::npos ? 0 : v.path.rfind('.') + 1);
            std::string pre = v.path.substr(0, v.path.size() - leaf.size());
            bool owner = (std::string(pr.cls) == spec.cls->name && pre.empty()) || (!pre.empty());
            if (!owner || leaf != pr.member) continue;
            for (auto & sc : l.scalars) {
                if (sc.path != pre + pr.length_field) continue;
                const MemFile::Chunk * lc = chunk_of(sc.addr);
                if (!lc) continue;   /* this variant does not serialise the member */
                uint64_t lv = 0;
                memcpy(&lv, &E[lc->off], std::min<size_t>(8, lc->len));
                const MemFile::Chunk * pc = v.count ? chunk_of(v.data) : nullptr;
                uint64_t emitted = pc ? pc->len : 0;
                uint64_t declared = lv * v.elem / (*pr.divisor ? 8 : 1);
                if (declared != emitted)
                    report("C03", sk + "|length:" + v.path, "length field " + sc.path + " = " + std::to_string(lv) + " (" + std::to_string(declared) +
                           " bytes) but " + std::to_string(emitted) + " payload bytes emitted for " + v.path, lab);
            }
        }
    }
    /* (f) decoding consumes exactly what was emitted */
    std::unique_ptr<ObjectHeaderBase> o2(File::createObject(static_cast<ObjectType>(type)));
    if (!o2) { report("C17", sk + "|factory", "the factory does not create type " + std::to_string(type) + " written by " + spec.cls->name, lab); return; }
    if (typeid(*o2) != typeid(*o)) { report("C17", sk + "|factory-class", "type " + std::to_string(type) + " written by " + spec.cls->name + " is created as another class", lab); return; }
    MemFile in(E);
    /* what File::uncompressedFile2ReadWriteQueue does around the decoder */
    bool threw = false;
    try { o2->read(in); } catch (...) { threw = true; }
    if (threw || !in.good() || in.bad_seek)
        report("C03", sk + "|decode-fails", std::string("decoding the emitted bytes ") + (threw ? "throws" : "runs past the end / seeks before the start"), lab);
    else if (in.g != E.size())
        report("C03", sk + "|decode-consumes", "decoding consumed " + std::to_string(in.g) + " of " + std::to_string(E.size()) + " emitted bytes", lab);
    else {
        /* (g) codec round trip on every serialised field */
        std::vector<rv::Item> d1 = rv::dump(*o), d2 = rv::dump(*o2);
        std::set<std::string> ser;
        auto inside = [&](const void * a, size_t n) {
            for (auto & c : mf.chunks) { const char * s = (const char *)c.src; if (s >= (const char *)a && s < (const char *)a + (n ? n : 1)) return true; }
            return false;
        };
        for (auto & sc : l.scalars) { g_allfields[spec.cls->name].insert(sc.path); if (inside(sc.addr, sc.size)) ser.insert(sc.path); }
        for (auto & v : l.vars) { g_allfields[spec.cls->name].insert(v.path); if (v.count == 0 || inside(v.data, v.count * v.elem)) ser.insert(v.path); }
        for (auto & s : ser) g_serialised[spec.cls->name].insert(s);
        std::string df = rv::diff(d1, d2, [&](const std::string & p) {
            std::string q = p;
            size_t br = q.find('[');
            if (q.size() > 5 && q.substr(q.size() - 5) == ".size") q = q.substr(0, q.size() - 5);
            else if (br != std::string::npos) q = q.substr(0, br);
            return ser.count(q) == 0 && ser.count(p) == 0;
        });
        if (!df.empty()) {
            std::string fieldname = df.substr(0, df.find(':'));
            report("C01", sk + "|roundtrip:" + fieldname, "decode(encode(x)) changes a serialised field: " + df, lab);
        }
    }
}

/* ---- C17 ---- */
static void check_c17(const std::string & only, bool do_factory) {
    /* factory: every code */
    std::map<uint32_t, const refl::ClassInfo *> expect;
    for (auto & c : refl::classes()) for (uint32_t code : c.codes) expect[code] = &c;
    std::vector<uint64_t> codes;
    for (uint64_t c = 0; c <= 255; c++) codes.push_back(c);
    for (uint64_t c : {256ull, 0xffffull, 0x10000ull, 0x7fffffffull, 0x80000000ull, 0xfffffffeull, 0xffffffffull, 0x100ull | 1, 0x01000000ull, 0x0a000000ull}) codes.push_back(c);
    for (uint64_t code : codes) {
        if (!do_factory) break;
        g_eval++;
        std::unique_ptr<ObjectHeaderBase> o(File::createObject(static_cast<ObjectType>((uint32_t)code)));
        auto it = expect.find((uint32_t)code);
        std::string lab = "createObject(" + std::to_string(code) + ")";
        if (it == expect.end()) {
            if (o) report("C17", "factory|" + std::to_string(code) + "|not-null", "the factory creates an object for unassigned / reserved code " + std::to_string(code), lab);
            continue;
        }
        if (!o) { report("C17", "factory|" + std::to_string(code) + "|null", std::string("the factory creates nothing for code ") + std::to_string(code) + " (" + it->second->name + ")", lab); continue; }
        if (typeid(*o) != *it->second->ti)
            report("C17", "factory|" + std::to_string(code) + "|class", "code " + std::to_string(code) + " is assigned to " + it->second->name + " but the factory creates another class", lab);
        g_distinct.insert("f" + std::to_string(code));
    }
    /* constructors: code maps back, poison independence, write/read back */
    for (auto & c : refl::classes()) {
        if (!only.empty() && only != c.name) continue;
        std::string lab = std::string("default-constructed ") + c.name;
        std::vector<rv::Item> first;
        std::vector<uint8_t> firstenc;
        for (int pat : {0x00, 0xff, 0xaa, 0x55}) {
            g_eval++;
            std::vector<uint8_t> block(c.size + 64, (uint8_t)pat);
            void * p = block.data() + ((64 - ((uintptr_t)block.data() % 64)) % 64);
            ObjectHeaderBase * o = c.construct_at(p);
            std::vector<rv::Item> d = rv::dump(*o);
            MemFile mf;
            try { o->write(mf); } catch (...) { report("C17", std::string(c.name) + "|write-throws", "writing a default-constructed object throws", lab); }
            uint32_t code = (uint32_t)o->objectType;
            if (pat == 0x00) {
                first = d;
                firstenc = mf.data;
                /* constructor's code */
                bool ok = false;
                for (uint32_t x : c.codes) if (x == code) ok = true;
                if (!ok) {
                    std::unique_ptr<ObjectHeaderBase> back(File::createObject(o->objectType));
                    std::string got = back ? (typeid(*back) == *c.ti ? "itself" : "another class") : "nothing";
                    report("C17", std::string(c.name) + "|ctor-code", std::string("a default-constructed ") + c.name + " carries type code " + std::to_string(code) +
                           ", which the format does not assign to this class (the factory maps it to " + got + ")", lab);
                } else {
                    std::unique_ptr<ObjectHeaderBase> back(File::createObject(o->objectType));
                    if (!back || typeid(*back) != *c.ti)
                        report("C17", std::string(c.name) + "|ctor-factory", "the factory does not map the constructor's code back to the class", lab);
                    /* written under that code, and read back as the same class and code */
                    if (mf.data.size() >= 16 && rd32(mf.data, 12) != code)
                        report("C17", std::string(c.name) + "|written-code", "written under code " + std::to_string(rd32(mf.data, 12)) + " instead of " + std::to_string(code), lab);
                    if (back && typeid(*back) == *c.ti) {
                        MemFile in(mf.data);
                        bool threw = false;
                        try { back->read(in); } catch (...) { threw = true; }
                        if (threw || (uint32_t)back->objectType != code)
                            report("C17", std::string(c.name) + "|readback-code", "reading a written default object back does not yield the same code", lab);
                    }
                }
                g_distinct.insert(std::string("c") + c.name);
            } else {
                std::string df = rv::diff(first, d);
                if (!df.empty()) {
                    std::string f = df.substr(0, df.find(':'));
                    report("C17", std::string(c.name) + "|uninit:" + f, std::string("a freshly constructed ") + c.name + " depends on previous memory contents: field " + df, lab);
                }
                if (mf.data != firstenc) report("C17", std::string(c.name) + "|uninit-encoding", "the encoding of a freshly constructed object depends on previous memory contents", lab);
            }
            c.destroy_at(o);
        }
    }
}

static std::string result_json(const std::string & mode, const vx::Args & args, const std::vector<std::string> & samples, double t0, const std::string & cls) {
    std::ostringstream o;
    o << "{\"harness\":\"codec\",\"mode\":\"" << mode << "\",\"class\":\"" << cls << "\",\"params\":" << args.json() << ",\"evaluations\":" << g_eval
      << ",\"distinct\":" << g_distinct.size() << ",\"samples\":[";
    for (size_t i = 0; i < samples.size(); i++) o << (i ? "," : "") << "\"" << vx::jesc(samples[i]) << "\"";
    o << "],\"violations\":[";
    for (size_t i = 0; i < g_viol.size(); i++) {
        auto & v = g_viol[i];
        o << (i ? "," : "") << "{\"prop\":\"" << v.prop << "\",\"key\":\"" << vx::jesc(v.key) << "\",\"what\":\"" << vx::jesc(v.what)
          << "\",\"spec\":\"" << vx::jesc(v.spec) << "\",\"count\":" << g_keys[v.prop + "|" + v.key] << "}";
    }
    o << "],\"wall_s\":" << (vx::now_s() - t0) << "}";
    return o.str();
}

/* shared with the parent so that a crash can be attributed to the object being processed */
struct Cur { char label[512]; char key[256]; };
static Cur * g_cur;

int main(int argc, char ** argv) {
    vx::Args args(argc, argv);
    std::string mode = args.str("mode", "frame");
    int shard = 0, nshards = 1;
    std::string sh = args.str("shard", "");
    if (!sh.empty()) sscanf(sh.c_str(), "%d/%d", &shard, &nshards);
    std::string only = args.str("class", "");
    g_cur = (Cur *)mmap(0, sizeof(Cur), PROT_READ | PROT_WRITE, MAP_SHARED | MAP_ANONYMOUS, -1, 0);
    std::set<uint32_t> pad = parse_set(args.str("pad", "")), nopad = parse_set(args.str("nopad", ""));
    std::string errfile = vx::make_scratch() + "/err.txt";
    int rc = 0;
    int ci = 0;
    for (auto & c : refl::classes()) {
        if (!only.empty() && only != c.name) continue;
        if ((ci++ % nshards) != shard) continue;
        fflush(stdout);
        memset(g_cur, 0, sizeof(Cur));
        pid_t pid = fork();
        if (pid == 0) {
            int fd = open(errfile.c_str(), O_WRONLY | O_CREAT | O_TRUNC, 0644);
            if (fd >= 0) { dup2(fd, 2); close(fd); }
            double t0 = vx::now_s();
            std::vector<std::string> samples;
            if (mode == "frame") {
                uni::Options uo;
                uo.big = args.num("big", 0) != 0;
                std::vector<uni::Spec> U = uni::universe(uo, c.name);
                for (size_t i = 0; i < U.size(); i++) {
                    if (args.num("list", 0)) { printf("%s\n", U[i].label().c_str()); continue; }
                    snprintf(g_cur->label, sizeof g_cur->label, "%s", U[i].label().c_str());
                    snprintf(g_cur->key, sizeof g_cur->key, "%s", selkey(U[i]).c_str());
                    check_frame(U[i], pad, nopad);
                    if (samples.size() < 2 && (i % 97) == 5) samples.push_back(U[i].label());
                }
                for (auto & kv : g_allfields)
                    for (auto & f : kv.second) {
                        if (g_serialised[kv.first].count(f)) continue;
                        if (f == "apiMajor" || f.find("_present") != std::string::npos) continue;   /* in-memory selectors */
                        report("C01", kv.first + "|never-serialised:" + f, "field " + f + " of " + kv.first + " is not serialised by any object of the universe", kv.first);
                    }
            } else if (mode == "c17") {
                snprintf(g_cur->label, sizeof g_cur->label, "default-constructed %s", c.name);
                snprintf(g_cur->key, sizeof g_cur->key, "%s", c.name);
                check_c17(c.name, ci == 1 || !only.empty());
            }
            if (!args.num("list", 0)) printf("%s\n", result_json(mode, args, samples, t0, c.name).c_str());
            fflush(stdout);
            _exit(g_viol.empty() ? 0 : 3);
        }
        int status = 0;
        waitpid(pid, &status, 0);
        if (WIFEXITED(status) && (WEXITSTATUS(status) == 0 || WEXITSTATUS(status) == 3)) { if (WEXITSTATUS(status)) rc = 1; continue; }
        std::string err = vx::read_tail(errfile, 3000);
        std::string kind = err.find("AddressSanitizer") != std::string::npos ? "memory-error" : err.find("runtime error") != std::string::npos ? "undefined-behaviour" : "crash";
        std::string sum;
        std::istringstream es(err);
        for (std::string line; std::getline(es, line);) if (line.find("SUMMARY") != std::string::npos || line.find("runtime error") != std::string::npos) { sum = line; break; }
        printf("{\"harness\":\"codec\",\"mode\":\"%s\",\"class\":\"%s\",\"evaluations\":1,\"distinct\":1,\"samples\":[],\"violations\":[{\"prop\":\"%s\",\"key\":\"%s|%s\",\"what\":\"%s while encoding/decoding (%s) %s\",\"spec\":\"%s\",\"count\":1}],\"wall_s\":0}\n",
               mode.c_str(), c.name, mode == "c17" ? "C17" : "C03", vx::jesc(g_cur->key).c_str(), kind.c_str(), kind.c_str(),
               WIFSIGNALED(status) ? ("signal " + std::to_string(WTERMSIG(status))).c_str() : ("exit " + std::to_string(WEXITSTATUS(status))).c_str(),
               vx::jesc(sum).c_str(), vx::jesc(g_cur->label).c_str());
        rc = 1;
    }
    vx::remove_scratch(vx::make_scratch());
    return rc;
}
