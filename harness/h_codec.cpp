/* Codec-level bounded-exhaustive enumeration over the object universe U (no threads, no files).
 *
 * mode=frame   C03 framing oracle + codec round trip (tagged C01) on every object of U
 * mode=c17     factory / constructor / poison checks for every type code and class
 * args: shard=i/n big=0|1 pad=<codes> nopad=<codes> class=<only this class> list=1
 */
#include <Vector/BLF.h>
#include <Vector/BLF/VarObjectHeader.h>

#include <signal.h>
#include <unistd.h>

#include <algorithm>
#include <cstdio>
#include <cstdlib>
#include <set>
#include <sstream>

#include "alloccap.h"
#include "explore.h"
#include "memfile.h"
#include "universe.h"

using namespace Vector::BLF;

struct Viol { std::string prop, key, what, spec; };
static std::vector<Viol> g_viol;
static std::map<std::string, int> g_keys;
static long g_eval = 0;
static std::set<std::string> g_distinct;

static void report(const std::string & prop, const std::string & key, const std::string & what, const std::string & spec) {
    if (g_keys[prop + "|" + key]++ == 0) g_viol.push_back({prop, key, what, spec});
}

static std::set<uint32_t> parse_set(const std::string & s) {
    std::set<uint32_t> r;
    for (const char * p = s.c_str(); *p;) { r.insert((uint32_t)strtoul(p, (char **)&p, 10)); if (*p == ',') p++; }
    return r;
}

static uint32_t rd32(const std::vector<uint8_t> & b, size_t off) { uint32_t v = 0; if (off + 4 <= b.size()) memcpy(&v, &b[off], 4); return v; }
static uint16_t rd16(const std::vector<uint8_t> & b, size_t off) { uint16_t v = 0; if (off + 2 <= b.size()) memcpy(&v, &b[off], 2); return v; }

static std::string selkey(const uni::Spec & s) {
    std::string k = s.cls->name;
    if (s.code) k += "#" + std::to_string(s.code);
    for (auto & kv : s.sel) if (kv.first != "objectSize") k += "," + kv.first + "=" + std::to_string(kv.second);
    return k;
}

static std::map<std::string, std::set<std::string>> g_serialised, g_allfields;

static void check_frame(const uni::Spec & spec, const std::set<uint32_t> & pad, const std::set<uint32_t> & nopad) {
    std::unique_ptr<ObjectHeaderBase> o(uni::build(spec));
    std::string lab = spec.label(), sk = selkey(spec);
    g_eval++;
    MemFile mf;
    mf.record = true;
    o->write(mf);
    const std::vector<uint8_t> & E = mf.data;
    g_distinct.insert(hex64(fnv64(E.data(), E.size())));
    if (E.size() < 16 || rd32(E, 0) != 0x4A424F4C) { report("C03", sk + "|signature", "emitted bytes do not start with a base header / signature", lab); return; }
    uint16_t headerSize = rd16(E, 4);
    uint32_t objectSize = rd32(E, 8), type = rd32(E, 12);
    /* (c) header bytes attributed to header members */
    const char * hb = reinterpret_cast<const char *>(static_cast<ObjectHeaderBase *>(o.get()));
    size_t hsz = sizeof(ObjectHeaderBase);
    if (auto * h = dynamic_cast<ObjectHeader *>(o.get())) { hb = reinterpret_cast<const char *>(h); hsz = sizeof(ObjectHeader); }
    else if (auto * h2 = dynamic_cast<ObjectHeader2 *>(o.get())) { hb = reinterpret_cast<const char *>(h2); hsz = sizeof(ObjectHeader2); }
    else if (auto * hv = dynamic_cast<VarObjectHeader *>(o.get())) { hb = reinterpret_cast<const char *>(hv); hsz = sizeof(VarObjectHeader); }
    size_t hdr_bytes = 0;
    bool layout_known = false;   /* false when the encoder serialises through temporaries: the layout map cannot attribute bytes then */
    {
        const char * ob0 = reinterpret_cast<const char *>(o.get());
        for (auto & c : mf.chunks) {
            const char * s = (const char *)c.src;
            if (s >= hb && s < hb + hsz) hdr_bytes += c.len;
            if (s >= ob0 && s < ob0 + spec.cls->size) layout_known = true;
        }
    }
    if (!layout_known) {
        /* fall back to the size the format assigns to this header kind */
        hdr_bytes = headerSize;
        size_t want_hdr = dynamic_cast<ObjectHeader2 *>(o.get()) ? 40 : (dynamic_cast<ObjectHeader *>(o.get()) || dynamic_cast<VarObjectHeader *>(o.get())) ? 32 : 16;
        if (headerSize != want_hdr) report("C03", sk + "|headerSize", "headerSize field " + std::to_string(headerSize) + " but this header kind has " + std::to_string(want_hdr) + " bytes", lab);
    }
    if (hdr_bytes != headerSize)
        report("C03", sk + "|headerSize", "headerSize field " + std::to_string(headerSize) + " but " + std::to_string(hdr_bytes) + " header bytes emitted", lab);
    /* (d) object size and padding */
    if (E.size() < objectSize) {
        report("C03", sk + "|objectSize-larger", "objectSize field " + std::to_string(objectSize) + " but only " + std::to_string(E.size()) + " bytes emitted", lab);
    } else {
        size_t padn = E.size() - objectSize;
        bool zero = true;
        for (size_t i = objectSize; i < E.size(); i++) if (E[i]) zero = false;
        size_t want = objectSize % 4;
        if (pad.count(type)) {
            if (padn != want) report("C03", sk + "|padding", "padding type: " + std::to_string(padn) + " bytes emitted after objectSize " + std::to_string(objectSize) + ", expected objectSize%4 = " + std::to_string(want), lab);
        } else if (nopad.count(type)) {
            if (padn != 0) report("C03", sk + "|padding", "non-padding type: " + std::to_string(padn) + " bytes emitted beyond objectSize " + std::to_string(objectSize), lab);
        } else {
            if (padn != 0 && padn != want) report("C03", sk + "|objectSize", "objectSize field " + std::to_string(objectSize) + " but " + std::to_string(E.size()) + " bytes emitted", lab);
        }
        if (!zero && (padn == want || padn == 0)) report("C03", sk + "|padding-nonzero", "padding bytes are not zero", lab);
    }
    /* (e) length fields equal the payload emitted */
    rv::ListV l;
    refl::dispatch(*o, l);
    auto chunk_of = [&](const void * p) -> const MemFile::Chunk * {
        for (auto & c : mf.chunks) if (c.src == p) return &c;
        return nullptr;
    };
    if (layout_known) {
        /* C14: bytes that come from neither a member nor a container (alignment padding, union filler) are zero */
        const char * ob = reinterpret_cast<const char *>(o.get());
        for (auto & c : mf.chunks) {
            const char * sp = (const char *)c.src;
            bool member = sp >= ob && sp < ob + spec.cls->size;
            for (auto & v : l.vars) if (v.count && sp >= (const char *)v.data && sp < (const char *)v.data + v.count * v.elem) member = true;
            if (member) continue;
            for (size_t i = c.off; i < c.off + c.len; i++)
                if (E[i]) { report("C14", sk + "|filler-nonzero", "filler byte at offset " + std::to_string(i) + " of the encoding is not zero", lab); break; }
        }
    }
    for (auto & pr : refl::resize_pairs()) {
        for (auto & v : l.vars) {
            std::string leaf = v.path.substr(v.path.rfind('.') == std::string::npos ? 0 : v.path.rfind('.') + 1);
            std::string pre = v.path.substr(0, v.path.size() - leaf.size());
            bool owner = (std::string(pr.cls) == spec.cls->name && pre.empty()) || (!pre.empty());
            if (!owner || leaf != pr.member) continue;
            for (auto & sc : l.scalars) {
                if (sc.path != pre + pr.length_field) continue;
                const MemFile::Chunk * lc = chunk_of(sc.addr);
                if (!lc) continue;   /* this variant does not serialise the member */
                uint64_t lv = 0;
                memcpy(&lv, &E[lc->off], std::min<size_t>(8, lc->len));
                const MemFile::Chunk * pc = v.count ? chunk_of(v.data) : nullptr;
                uint64_t emitted = pc ? pc->len : 0;
                uint64_t declared = lv * v.elem / (*pr.divisor ? 8 : 1);
                if (declared != emitted)
                    report("C03", sk + "|length:" + v.path, "length field " + sc.path + " = " + std::to_string(lv) + " (" + std::to_string(declared) +
                           " bytes) but " + std::to_string(emitted) + " payload bytes emitted for " + v.path, lab);
            }
        }
    }
    /* (f) decoding consumes exactly what was emitted */
    std::unique_ptr<ObjectHeaderBase> o2(File::createObject(static_cast<ObjectType>(type)));
    if (!o2) { report("C17", sk + "|factory", "the factory does not create type " + std::to_string(type) + " written by " + spec.cls->name, lab); return; }
    if (typeid(*o2) != typeid(*o)) { report("C17", sk + "|factory-class", "type " + std::to_string(type) + " written by " + spec.cls->name + " is created as another class", lab); return; }
    MemFile in(E);
    /* what File::uncompressedFile2ReadWriteQueue does around the decoder */
    bool threw = false;
    try { o2->read(in); } catch (...) { threw = true; }
    if (threw || !in.good() || in.bad_seek)
        report("C03", sk + "|decode-fails", std::string("decoding the emitted bytes ") + (threw ? "throws" : "runs past the end / seeks before the start"), lab);
    else if (in.g != E.size())
        report("C03", sk + "|decode-consumes", "decoding consumed " + std::to_string(in.g) + " of " + std::to_string(E.size()) + " emitted bytes", lab);
    if (!threw && !spec.overlong) {   /* a payload beyond its length field cannot round-trip; its framing must still be consistent */
        /* (g) codec round trip on every serialised field */
        std::vector<rv::Item> d1 = rv::dump(*o), d2 = rv::dump(*o2);
        std::set<std::string> ser;
        auto inside = [&](const void * a, size_t n) {
            for (auto & c : mf.chunks) { const char * s = (const char *)c.src; if (s >= (const char *)a && s < (const char *)a + (n ? n : 1)) return true; }
            return false;
        };
        for (auto & sc : l.scalars) { if (layout_known) g_allfields[spec.cls->name].insert(sc.path); if (!layout_known || inside(sc.addr, sc.size)) ser.insert(sc.path); }
        for (auto & v : l.vars) { if (layout_known) g_allfields[spec.cls->name].insert(v.path); if (!layout_known || v.count == 0 || inside(v.data, v.count * v.elem)) ser.insert(v.path); }
        if (!layout_known) { ser.erase("apiMajor"); for (auto it = ser.begin(); it != ser.end();) it = (it->find("_present") != std::string::npos) ? ser.erase(it) : std::next(it); }
        for (auto & s : ser) g_serialised[spec.cls->name].insert(s);
        /* the fields the selected layout variant must serialise by the format (hand-written table): a writer and a reader
         * that agree on dropping an optional part are not a round trip */
        if (layout_known)
            for (auto & rf : uni::required_fields(spec, *o))
                if (!ser.count(rf)) {
                    report("C01", sk + "|variant-field-dropped:" + rf, "field " + rf + " belongs to the layout variant this object selects but is not serialised", lab);
                    ser.insert(rf);
                }
        for (auto & sc : l.scalars)   /* layout selectors the decoder restores from the size: part of the object's value */
            if (sc.path == "apiMajor" || sc.path.find("_present") != std::string::npos) ser.insert(sc.path);
        std::string df = rv::diff(d1, d2, [&](const std::string & p) {
            std::string q = p;
            size_t br = q.find('[');
            if (q.size() > 5 && q.substr(q.size() - 5) == ".size") q = q.substr(0, q.size() - 5);
            else if (br != std::string::npos) q = q.substr(0, br);
            return ser.count(q) == 0 && ser.count(p) == 0;
        });
        if (!df.empty()) {
            std::string fieldname = df.substr(0, df.find(':'));
            report("C01", sk + "|roundtrip:" + fieldname, "decode(encode(x)) changes a serialised field: " + df, lab);
        }
    }
}

/* ---- C17 ---- */
/* an encoder or decoder that does not return is a violation of the item at hand, not an infrastructure timeout:
 * SIGALRM (default action) ends the child and the parent reports the item; re-armed every 64 items */
static inline void tick() { static unsigned n = 0; if ((n++ & 63) == 0) alarm(180); }

static void check_c17(const std::string & only, bool do_factory) {
    /* factory: every code */
    std::map<uint32_t, const refl::ClassInfo *> expect;
    for (auto & c : refl::classes()) for (uint32_t code : c.codes) expect[code] = &c;
    std::vector<uint64_t> codes;
    for (uint64_t c = 0; c <= 255; c++) codes.push_back(c);
    for (uint64_t c : {256ull, 0xffffull, 0x10000ull, 0x7fffffffull, 0x80000000ull, 0xfffffffeull, 0xffffffffull, 0x100ull | 1, 0x01000000ull, 0x0a000000ull}) codes.push_back(c);
    for (uint64_t code : codes) {
        if (!do_factory) break;
        g_eval++;
        std::unique_ptr<ObjectHeaderBase> o(File::createObject(static_cast<ObjectType>((uint32_t)code)));
        auto it = expect.find((uint32_t)code);
        std::string lab = "createObject(" + std::to_string(code) + ")";
        if (it == expect.end()) {
            if (o) report("C17", "factory|" + std::to_string(code) + "|not-null", "the factory creates an object for unassigned / reserved code " + std::to_string(code), lab);
            continue;
        }
        if (!o) { report("C17", "factory|" + std::to_string(code) + "|null", std::string("the factory creates nothing for code ") + std::to_string(code) + " (" + it->second->name + ")", lab); continue; }
        if (typeid(*o) != *it->second->ti)
            report("C17", "factory|" + std::to_string(code) + "|class", "code " + std::to_string(code) + " is assigned to " + it->second->name + " but the factory creates another class", lab);
        g_distinct.insert("f" + std::to_string(code));
    }
    /* constructors: code maps back, poison independence, write/read back */
    for (auto & c : refl::classes()) {
        if (!only.empty() && only != c.name) continue;
        std::string lab = std::string("default-constructed ") + c.name;
        std::vector<rv::Item> first;
        std::vector<uint8_t> firstenc;
        for (int pat : {0x00, 0xff, 0xaa, 0x55}) {
            g_eval++;
            std::vector<uint8_t> block(c.size + 64, (uint8_t)pat);
            void * p = block.data() + ((64 - ((uintptr_t)block.data() % 64)) % 64);
            ObjectHeaderBase * o = c.construct_at(p);
            std::vector<rv::Item> d = rv::dump(*o);
            MemFile mf;
            try { o->write(mf); } catch (...) { report("C17", std::string(c.name) + "|write-throws", "writing a default-constructed object throws", lab); }
            uint32_t code = (uint32_t)o->objectType;
            if (pat == 0x00) {
                first = d;
                firstenc = mf.data;
                /* constructor's code */
                bool ok = false;
                for (uint32_t x : c.codes) if (x == code) ok = true;
                if (!ok) {
                    std::unique_ptr<ObjectHeaderBase> back(File::createObject(o->objectType));
                    std::string got = back ? (typeid(*back) == *c.ti ? "itself" : "another class") : "nothing";
                    report("C17", std::string(c.name) + "|ctor-code", std::string("a default-constructed ") + c.name + " carries type code " + std::to_string(code) +
                           ", which the format does not assign to this class (the factory maps it to " + got + ")", lab);
                } else {
                    std::unique_ptr<ObjectHeaderBase> back(File::createObject(o->objectType));
                    if (!back || typeid(*back) != *c.ti)
                        report("C17", std::string(c.name) + "|ctor-factory", "the factory does not map the constructor's code back to the class", lab);
                    /* written under that code, and read back as the same class and code */
                    if (mf.data.size() >= 16 && rd32(mf.data, 12) != code)
                        report("C17", std::string(c.name) + "|written-code", "written under code " + std::to_string(rd32(mf.data, 12)) + " instead of " + std::to_string(code), lab);
                    if (back && typeid(*back) == *c.ti) {
                        MemFile in(mf.data);
                        bool threw = false;
                        try { back->read(in); } catch (...) { threw = true; }
                        if (threw || (uint32_t)back->objectType != code)
                            report("C17", std::string(c.name) + "|readback-code", "reading a written default object back does not yield the same code", lab);
                        else if (in.fail_ || in.g != mf.data.size())
                            report("C17", std::string(c.name) + "|readback-extent", "reading a written default object back " +
                                   std::string(in.fail_ ? "runs beyond the " : "stops before the end of the ") + std::to_string(mf.data.size()) + " bytes it was written as (consumed " + std::to_string(in.g) + ")", lab);
                    }
                }
                g_distinct.insert(std::string("c") + c.name);
            } else {
                std::string df = rv::diff(first, d);
                if (!df.empty()) {
                    std::string f = df.substr(0, df.find(':'));
                    report("C17", std::string(c.name) + "|uninit:" + f, std::string("a freshly constructed ") + c.name + " depends on previous memory contents: field " + df, lab);
                }
                if (mf.data != firstenc) report("C17", std::string(c.name) + "|uninit-encoding", "the encoding of a freshly constructed object depends on previous memory contents", lab);
            }
            c.destroy_at(o);
        }
    }
}

/* ---- C02: reference images survive decode -> encode, also after single-field overwrites ---- */
struct Cur2 { volatile long off; volatile int val; volatile int width; };
static Cur2 * g_cur2;

/* variant selectors whose alternatives have the same encoded length (the others show up as a length change) */
static int variant_signature(ObjectHeaderBase & o) {
    if (auto * se = dynamic_cast<SerialEvent *>(&o))
        return (se->flags & SerialEvent::SingleByte) ? 1 : (se->flags & SerialEvent::CompactByte) ? 2 : 3;
    if (auto * ce = dynamic_cast<CanErrorFrame *>(&o)) return ce->length > 0 ? 1 : 2;
    return 0;
}
static int g_last_variant;
static std::string g_last_shape;   /* element counts of all variable-length members */

static std::string shape_of(ObjectHeaderBase & o) {
    rv::ListV l;
    refl::dispatch(o, l);
    std::string sgn;
    for (auto & v : l.vars) sgn += std::to_string(v.count) + ",";
    return sgn;
}

static bool decode_encode(const std::vector<uint8_t> & img, std::vector<uint8_t> & out, MemFile * layout, std::string & why,
                          std::unique_ptr<ObjectHeaderBase> * keep = nullptr) {
    if (img.size() < 16) { why = "short"; return false; }
    uint32_t type = rd32(img, 12);
    std::unique_ptr<ObjectHeaderBase> o(File::createObject(static_cast<ObjectType>(type)));
    if (!o) { why = "factory returns nothing"; return false; }
    MemFile in(img);
    try { o->read(in); } catch (...) { why = "decoder throws"; return false; }
    if (!in.good() || in.bad_seek) { why = "decoder runs past the image"; return false; }
    if (in.g != img.size()) { why = "decoder consumed " + std::to_string(in.g) + " of " + std::to_string(img.size()); return false; }
    g_last_variant = variant_signature(*o);
    g_last_shape = shape_of(*o);
    MemFile mf;
    mf.record = true;
    try { o->write(mf); } catch (...) { why = "encoder throws"; return false; }
    out = mf.data;
    if (layout) *layout = mf;
    if (keep) *keep = std::move(o);
    return true;
}

static void check_c02_image(const std::vector<uint8_t> & img, const std::string & name, int values_mode) {
    std::vector<uint8_t> enc;
    MemFile lay;
    std::string why;
    std::unique_ptr<ObjectHeaderBase> obj;
    g_eval++;
    if (!decode_encode(img, enc, &lay, why, &obj)) { report("C02", name + "|decode", "reference image does not decode completely: " + why, name); return; }
    if (enc != img) {
        size_t d = 0;
        while (d < enc.size() && d < img.size() && enc[d] == img[d]) d++;
        report("C02", name + "|identity", "decode->encode of the reference image differs at offset " + std::to_string(d) + " (sizes " +
               std::to_string(img.size()) + " -> " + std::to_string(enc.size()) + ")", name);
        return;
    }
    g_distinct.insert(name);
    const int variant0 = g_last_variant;
    const std::string shape0 = g_last_shape;
    /* byte ranges of fields the encoder recomputes by design (pre-processing table + the size fields of the base header) */
    std::vector<char> recomputed(img.size(), 0);
    {
        rv::ListV l;
        refl::dispatch(*obj, l);
        const refl::ClassInfo * ci = refl::class_of(*obj);
        std::set<std::string> pre = {"headerSize", "objectSize"};
        for (auto & r : refl::preprocessed_fields()) pre.insert(r.member);   /* by leaf name, any class (nested variants included) */
        (void)ci;
        for (auto & sc : l.scalars) {
            std::string leaf = sc.path.substr(sc.path.rfind('.') == std::string::npos ? 0 : sc.path.rfind('.') + 1);
            if (!pre.count(leaf)) continue;
            for (auto & c : lay.chunks)
                if (c.src == sc.addr) for (size_t i = c.off; i < c.off + c.len && i < recomputed.size(); i++) recomputed[i] = 1;
        }
    }
    /* filler the encoder emits by design (alignment padding, unused parts of unions): zero bytes whose source is
     * neither a member of the object nor one of its containers; such bytes are not field values */
    std::vector<char> filler(img.size(), 0);
    {
        rv::ListV l2;
        refl::dispatch(*obj, l2);
        const char * ob = reinterpret_cast<const char *>(obj.get());
        const refl::ClassInfo * ci2 = refl::class_of(*obj);
        size_t osz = ci2 ? ci2->size : 0;
        for (auto & c : lay.chunks) {
            const char * sp = (const char *)c.src;
            bool member = sp >= ob && sp < ob + osz;
            for (auto & v : l2.vars) if (v.count && sp >= (const char *)v.data && sp < (const char *)v.data + v.count * v.elem) member = true;
            if (!member) for (size_t i = c.off; i < c.off + c.len && i < filler.size(); i++) filler[i] = 1;
        }
    }
    uint32_t objectSize = rd32(img, 8);
    size_t end = std::min<size_t>(objectSize, img.size());
    std::vector<uint8_t> d = img, out;
    auto try_derived = [&](size_t off, int width) {
        g_eval++;
        g_cur2->off = (long)off; g_cur2->width = width;
        tick();
        std::string w;
        if (!decode_encode(d, out, nullptr, w)) return;            /* filter: must still decode completely */
        if (out.size() != d.size()) return;                       /* filter: same shape = same encoded length */
        if (g_last_variant != variant0) return;                   /* filter: same variant selector */
        if (g_last_shape != shape0) return;                       /* filter: same lengths of all variable members */
        for (size_t i = 0; i < d.size(); i++) {
            if (out[i] == d[i]) continue;
            if (recomputed[i] && out[i] == img[i]) continue;      /* recomputed by design: equals the recomputed value */
            if (filler[i] && out[i] == 0) continue;               /* filler by design: written as zero */
            std::ostringstream s;
            s << "after overwriting " << width << " byte(s) at offset " << off << " with 0x";
            for (int k = width - 1; k >= 0; k--) { char b[4]; snprintf(b, sizeof b, "%02x", d[off + k]); s << b; }
            s << ": re-encoding differs at offset " << i << " (decoded image has 0x" << std::hex << (int)d[i] << ", re-encoded 0x" << (int)out[i] << ")";
            report("C02", name + "|field@" + std::to_string(i), s.str(), name);
            return;
        }
    };
    /* every single byte */
    for (size_t off = 16; off < end; off++) {
        uint8_t orig = img[off];
        std::vector<int> vals;
        if (values_mode == 0) { for (int v : {0x00, 0x01, 0x7f, 0x80, 0xfe, 0xff, orig ^ 0x01, orig ^ 0x80}) vals.push_back(v & 0xff); }
        else for (int v = 0; v < 256; v++) vals.push_back(v);
        for (int v : vals) {
            if (v == orig) continue;
            d[off] = (uint8_t)v;
            g_cur2->val = v;
            try_derived(off, 1);
        }
        d[off] = orig;
    }
    /* aligned 2/4/8-byte groups with boundary values */
    for (int width : {2, 4, 8})
        for (size_t off = 16; off + width <= end; off += width) {
            for (int pat = 0; pat < 5; pat++) {
                for (int k = 0; k < width; k++) {
                    uint8_t b = 0;
                    switch (pat) {
                    case 0: b = 0; break;
                    case 1: b = k == 0 ? 1 : 0; break;
                    case 2: b = k == width - 1 ? 0x7f : 0xff; break;
                    case 3: b = k == width - 1 ? 0x80 : 0x00; break;
                    case 4: b = 0xff; break;
                    }
                    d[off + k] = b;
                }
                g_cur2->val = pat;
                try_derived(off, width);
            }
            for (int k = 0; k < width; k++) d[off + k] = img[off + k];
        }
}

static std::string result_json(const std::string & mode, const vx::Args & args, const std::vector<std::string> & samples, double t0, const std::string & cls) {
    std::ostringstream o;
    o << "{\"harness\":\"codec\",\"mode\":\"" << mode << "\",\"class\":\"" << cls << "\",\"params\":" << args.json() << ",\"evaluations\":" << g_eval
      << ",\"distinct\":" << g_distinct.size() << ",\"samples\":[";
    for (size_t i = 0; i < samples.size(); i++) o << (i ? "," : "") << "\"" << vx::jesc(samples[i]) << "\"";
    o << "],\"violations\":[";
    for (size_t i = 0; i < g_viol.size(); i++) {
        auto & v = g_viol[i];
        o << (i ? "," : "") << "{\"prop\":\"" << v.prop << "\",\"key\":\"" << vx::jesc(v.key) << "\",\"what\":\"" << vx::jesc(v.what)
          << "\",\"spec\":\"" << vx::jesc(v.spec) << "\",\"count\":" << g_keys[v.prop + "|" + v.key] << "}";
    }
    o << "],\"wall_s\":" << (vx::now_s() - t0) << "}";
    return o.str();
}

/* shared with the parent so that a crash can be attributed to the object being processed */
struct Cur { char label[512]; char key[256]; };
static Cur * g_cur;

int main(int argc, char ** argv) {
    vx::Args args(argc, argv);
    std::string mode = args.str("mode", "frame");
    int shard = 0, nshards = 1;
    std::string sh = args.str("shard", "");
    if (!sh.empty()) sscanf(sh.c_str(), "%d/%d", &shard, &nshards);
    std::string only = args.str("class", "");
    g_cur = (Cur *)mmap(0, sizeof(Cur), PROT_READ | PROT_WRITE, MAP_SHARED | MAP_ANONYMOUS, -1, 0);
    std::set<uint32_t> pad = parse_set(args.str("pad", "")), nopad = parse_set(args.str("nopad", ""));
    std::string errfile = vx::make_scratch() + "/err.txt";
    int rc = 0;
    int ci = 0;
    if (mode == "c02") {
        g_cur2 = (Cur2 *)mmap(0, sizeof(Cur2), PROT_READ | PROT_WRITE, MAP_SHARED | MAP_ANONYMOUS, -1, 0);
        std::ifstream in(args.str("images", ""), std::ios::binary);
        std::vector<std::pair<std::string, std::vector<uint8_t>>> imgs;
        for (;;) {
            uint32_t nl = 0, bl = 0;
            if (!in.read((char *)&nl, 4)) break;
            std::string nm(nl, 0);
            in.read(&nm[0], nl);
            in.read((char *)&bl, 4);
            std::vector<uint8_t> b(bl);
            in.read((char *)b.data(), bl);
            imgs.push_back({nm, b});
        }
        int values_mode = (int)args.num("allvalues", 0);
        for (size_t i = 0; i < imgs.size(); i++) {
            if ((int)(i % nshards) != shard) continue;
            fflush(stdout);
            pid_t pid = fork();
            if (pid == 0) {
                int fd = open(errfile.c_str(), O_WRONLY | O_CREAT | O_TRUNC, 0644);
                if (fd >= 0) { dup2(fd, 2); close(fd); }
                double t0 = vx::now_s();
                check_c02_image(imgs[i].second, imgs[i].first, values_mode);
                printf("%s\n", result_json(mode, args, {imgs[i].first}, t0, imgs[i].first).c_str());
                fflush(stdout);
                _exit(g_viol.empty() ? 0 : 3);
            }
            int status = 0;
            waitpid(pid, &status, 0);
            if (WIFEXITED(status) && (WEXITSTATUS(status) == 0 || WEXITSTATUS(status) == 3)) { if (WEXITSTATUS(status)) rc = 1; continue; }
            std::string err = vx::read_tail(errfile, 3000), sum;
            std::istringstream es(err);
            for (std::string line; std::getline(es, line);) if (line.find("SUMMARY") != std::string::npos || line.find("runtime error") != std::string::npos) { sum = line; break; }
            printf("\n{\"harness\":\"codec\",\"mode\":\"c02\",\"class\":\"%s\",\"evaluations\":1,\"distinct\":0,\"samples\":[],\"violations\":[{\"prop\":\"C02\",\"key\":\"%s|crash\",\"what\":\"crash / sanitizer report while decoding or encoding the image with %d byte(s) at offset %ld overwritten (value/pattern %d): %s\",\"spec\":\"%s\",\"count\":1}],\"wall_s\":0}\n",
                   vx::jesc(imgs[i].first).c_str(), vx::jesc(imgs[i].first).c_str(), g_cur2->width, g_cur2->off, g_cur2->val, vx::jesc(sum).c_str(), vx::jesc(imgs[i].first).c_str());
            rc = 1;
        }
        vx::remove_scratch(vx::make_scratch());
        return rc;
    }
    for (auto & c : refl::classes()) {
        if (!only.empty() && only != c.name) continue;
        if ((ci++ % nshards) != shard) continue;
        fflush(stdout);
        memset(g_cur, 0, sizeof(Cur));
        pid_t pid = fork();
        if (pid == 0) {
            int fd = open(errfile.c_str(), O_WRONLY | O_CREAT | O_TRUNC, 0644);
            if (fd >= 0) { dup2(fd, 2); close(fd); }
            double t0 = vx::now_s();
            std::vector<std::string> samples;
            if (mode == "frame") {
                uni::Options uo;
                uo.big = args.num("big", 0) != 0;
                uo.overlong = args.num("overlong", 0) != 0;
                std::vector<uni::Spec> U = uni::universe(uo, c.name);
                for (size_t i = 0; i < U.size(); i++) {
                    if (args.num("list", 0)) { printf("%s\n", U[i].label().c_str()); continue; }
                    snprintf(g_cur->label, sizeof g_cur->label, "%s", U[i].label().c_str());
                    snprintf(g_cur->key, sizeof g_cur->key, "%s", selkey(U[i]).c_str());
                    tick();
                    check_frame(U[i], pad, nopad);
                    if (samples.size() < 2 && (i % 97) == 5) samples.push_back(U[i].label());
                }
                for (auto & kv : g_allfields)
                    for (auto & f : kv.second) {
                        if (g_serialised[kv.first].count(f)) continue;
                        if (f == "apiMajor" || f.find("_present") != std::string::npos) continue;   /* in-memory selectors */
                        report("C01", kv.first + "|never-serialised:" + f, "field " + f + " of " + kv.first + " is not serialised by any object of the universe", kv.first);
                    }
            } else if (mode == "enc") {
                uni::Options uo;
                std::vector<uni::Spec> U = uni::universe(uo, c.name);
                for (size_t i = 0; i < U.size(); i++) {
                    snprintf(g_cur->label, sizeof g_cur->label, "%s", U[i].label().c_str());
                    snprintf(g_cur->key, sizeof g_cur->key, "%s", c.name);
                    tick();
                    std::unique_ptr<ObjectHeaderBase> o(uni::build(U[i]));
                    MemFile mf;
                    o->write(mf);
                    g_eval++;
                    g_distinct.insert(hex64(fnv64(mf.data.data(), mf.data.size())));
                    printf("E %s %s %zu\n", vx::jesc(U[i].label()).c_str(), hex64(fnv64(mf.data.data(), mf.data.size())).c_str(), mf.data.size());
                }
                /* default-constructed objects as well */
                {
                    std::unique_ptr<ObjectHeaderBase> o(c.make());
                    MemFile mf;
                    o->write(mf);
                    printf("E default:%s %s %zu\n", c.name, hex64(fnv64(mf.data.data(), mf.data.size())).c_str(), mf.data.size());
                }
            } else if (mode == "c17") {
                tick();
                snprintf(g_cur->label, sizeof g_cur->label, "default-constructed %s", c.name);
                snprintf(g_cur->key, sizeof g_cur->key, "%s", c.name);
                check_c17(c.name, ci == 1 || !only.empty());
            }
            if (!args.num("list", 0)) printf("%s\n", result_json(mode, args, samples, t0, c.name).c_str());
            fflush(stdout);
            _exit(g_viol.empty() ? 0 : 3);
        }
        int status = 0;
        waitpid(pid, &status, 0);
        if (WIFEXITED(status) && (WEXITSTATUS(status) == 0 || WEXITSTATUS(status) == 3)) { if (WEXITSTATUS(status)) rc = 1; continue; }
        std::string err = vx::read_tail(errfile, 3000);
        std::string kind = err.find("AddressSanitizer") != std::string::npos ? "memory-error" : err.find("runtime error") != std::string::npos ? "undefined-behaviour" : "crash";
        if (WIFSIGNALED(status) && WTERMSIG(status) == SIGALRM) kind = "no-return (encoding or decoding does not end within 180 s)";
        std::string sum;
        std::istringstream es(err);
        for (std::string line; std::getline(es, line);) if (line.find("SUMMARY") != std::string::npos || line.find("runtime error") != std::string::npos) { sum = line; break; }
        printf("\n{\"harness\":\"codec\",\"mode\":\"%s\",\"class\":\"%s\",\"evaluations\":1,\"distinct\":1,\"samples\":[],\"violations\":[{\"prop\":\"%s\",\"key\":\"%s|%s\",\"what\":\"%s while encoding/decoding (%s) %s\",\"spec\":\"%s\",\"count\":1}],\"wall_s\":0}\n",
               mode.c_str(), c.name, mode == "c17" ? "C17" : "C03", vx::jesc(g_cur->key).c_str(), kind.c_str(), kind.c_str(),
               WIFSIGNALED(status) ? ("signal " + std::to_string(WTERMSIG(status))).c_str() : ("exit " + std::to_string(WEXITSTATUS(status))).c_str(),
               vx::jesc(sum).c_str(), vx::jesc(g_cur->label).c_str());
        rc = 1;
    }
    vx::remove_scratch(vx::make_scratch());
    return rc;
}
