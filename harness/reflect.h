/* Visitors over the generated reflection (reflect_gen.h): dump, fill, set, list. */
#pragma once
#include <array>
#include <cstdint>
#include <cstring>
#include <functional>
#include <map>
#include <string>
#include <type_traits>
#include <vector>

#include "reflect_gen.h"

namespace rv {

template<class D>
struct VisitorBase {
    std::string prefix;
    D & self() { return *static_cast<D *>(this); }
    void base(const char *) {}
    void base_end() {}
    template<class T> void field(const char * name, T & x) { handle(prefix + name, x); }

    template<class T>
    typename std::enable_if<std::is_arithmetic<T>::value || std::is_enum<T>::value>::type handle(const std::string & p, T & x) {
        self().scalar(p, reinterpret_cast<uint8_t *>(&x), sizeof(T), std::is_same<T, bool>::value, std::is_floating_point<T>::value);
    }
    template<class T, size_t N>
    typename std::enable_if<std::is_arithmetic<T>::value>::type handle(const std::string & p, std::array<T, N> & a) {
        self().scalar(p, reinterpret_cast<uint8_t *>(a.data()), N * sizeof(T), false, false);
    }
    template<class T, size_t N>
    typename std::enable_if<!std::is_arithmetic<T>::value>::type handle(const std::string & p, std::array<T, N> & a) {
        for (size_t i = 0; i < N; i++) handle(p + "[" + std::to_string(i) + "]", a[i]);
    }
    template<class T>
    typename std::enable_if<std::is_arithmetic<T>::value>::type handle(const std::string & p, std::vector<T> & v) {
        self().vec(p, v);
    }
    template<class T>
    typename std::enable_if<!std::is_arithmetic<T>::value>::type handle(const std::string & p, std::vector<T> & v) {
        self().vec_struct_begin(p, v);
        for (size_t i = 0; i < v.size(); i++) handle(p + "[" + std::to_string(i) + "]", v[i]);
    }
    template<class C> void handle(const std::string & p, std::basic_string<C> & s) { self().str(p, s); }
    template<class T>
    typename std::enable_if<std::is_class<T>::value>::type handle(const std::string & p, T & x) {
        std::string old = prefix;
        prefix = p + ".";
        refl::visit(x, self());
        prefix = old;
    }
    template<class T> void vec_struct_begin(const std::string &, std::vector<T> &) {}
};

struct Item {
    std::string path;
    char kind;  /* s scalar, v vector, t string */
    std::string bytes;
};

struct DumpV : VisitorBase<DumpV> {
    std::vector<Item> items;
    void scalar(const std::string & p, uint8_t * d, size_t n, bool, bool) { items.push_back({p, 's', std::string((char *)d, n)}); }
    template<class T> void vec(const std::string & p, std::vector<T> & v) {
        items.push_back({p, 'v', std::string((const char *)v.data(), v.size() * sizeof(T))});
    }
    template<class T> void vec_struct_begin(const std::string & p, std::vector<T> & v) {
        uint64_t n = v.size();
        items.push_back({p + ".size", 'v', std::string((char *)&n, 8)});
    }
    template<class C> void str(const std::string & p, std::basic_string<C> & s) {
        items.push_back({p, 't', std::string((const char *)s.data(), s.size() * sizeof(C))});
    }
};

inline std::vector<Item> dump(Vector::BLF::ObjectHeaderBase & o) {
    DumpV d;
    refl::dispatch(o, d);
    return d.items;
}

inline std::string hexs(const std::string & b, size_t maxn = 24) {
    static const char * h = "0123456789abcdef";
    std::string s;
    for (size_t i = 0; i < b.size() && i < maxn; i++) { s += h[(uint8_t)b[i] >> 4]; s += h[(uint8_t)b[i] & 15]; }
    if (b.size() > maxn) s += "..(" + std::to_string(b.size()) + ")";
    return s;
}

/* first difference between two dumps, "" if equal; `skip` names paths not to compare */
inline std::string diff(const std::vector<Item> & a, const std::vector<Item> & b, const std::function<bool(const std::string &)> & skip = nullptr) {
    if (a.size() != b.size()) return "different number of fields (" + std::to_string(a.size()) + " vs " + std::to_string(b.size()) + ")";
    for (size_t i = 0; i < a.size(); i++) {
        if (a[i].path != b[i].path) return "field order differs at " + a[i].path;
        if (skip && skip(a[i].path)) continue;
        if (a[i].bytes != b[i].bytes) return a[i].path + ": " + hexs(a[i].bytes) + " != " + hexs(b[i].bytes);
    }
    return "";
}

inline bool is_identity_field(const std::string & p) {
    return p == "signature" || p == "headerSize" || p == "headerVersion" || p == "objectSize" || p == "objectType";
}

enum Pattern { P_UNIQUE = 0, P_ZERO = 1, P_FF = 2, P_8070 = 3, P_SPARSE = 4, P_COUNT = 5 };

struct FillV : VisitorBase<FillV> {
    int pattern = P_UNIQUE;
    uint32_t counter = 1;
    size_t deflen = 0;
    std::map<std::string, size_t> shape;
    bool toggle = false;
    uint8_t next() {
        for (;;) {
            uint8_t c = (uint8_t)(counter++ % 251 + 1);
            if (c != 'L' && c != 'O' && c != 'B' && c != 'J') return c;
        }
    }
    void fill(uint8_t * d, size_t n) {
        if (n == 0 || d == nullptr) return;
        switch (pattern) {
        case P_UNIQUE: for (size_t i = 0; i < n; i++) d[i] = next(); break;
        case P_ZERO: memset(d, 0, n); break;
        case P_FF: memset(d, 0xff, n); break;
        case P_SPARSE: for (size_t i = 0; i < n; i++) d[i] = next(); break;
        case P_8070:
            toggle = !toggle;
            memset(d, toggle ? 0xff : 0x00, n);
            if (n) d[n - 1] = toggle ? 0x7f : 0x80;   /* little endian: most significant byte last */
            break;
        }
    }
    void scalar(const std::string & p, uint8_t * d, size_t n, bool is_bool, bool) {
        if (is_identity_field(p)) return;
        if (pattern == P_SPARSE) {
            /* the way an application often uses the API: only some fields are set, fixed-size arrays only at the front;
             * everything else keeps the value the constructor gave it */
            toggle = !toggle;
            if (is_bool) return;
            if (n > 8) { for (size_t i = 0; i < 2 && i < n; i++) d[i] = next(); return; }
            if (toggle) for (size_t i = 0; i < n; i++) d[i] = next();
            return;
        }
        if (is_bool) { *d = (pattern == P_ZERO) ? 0 : (pattern == P_FF ? 1 : (next() & 1)); return; }
        fill(d, n);
    }
    size_t len_for(const std::string & p) {
        auto it = shape.find(p);
        return it == shape.end() ? deflen : it->second;
    }
    template<class T> void vec(const std::string & p, std::vector<T> & v) {
        v.resize(len_for(p));
        fill(reinterpret_cast<uint8_t *>(v.data()), v.size() * sizeof(T));
    }
    template<class T> void vec_struct_begin(const std::string & p, std::vector<T> & v) { v.resize(len_for(p)); }
    template<class C> void str(const std::string & p, std::basic_string<C> & s) {
        size_t n = len_for(p);
        s.resize(n);
        /* strings are length-prefixed byte strings in the format: NUL bytes inside them are values like any other */
        for (size_t i = 0; i < n; i++) {
            C ch = (C)('a' + (counter++ % 20));
            if (pattern == P_ZERO) ch = 0;
            else if (pattern == P_FF) ch = (C)0xff;
            else if (pattern == P_8070 && (i % 2) == 1) ch = 0;      /* "a\0b": a terminator-like byte followed by more text */
            s[i] = ch;
        }
    }
};

struct SetV : VisitorBase<SetV> {
    std::string target;
    uint64_t value = 0;
    int hits = 0;
    void scalar(const std::string & p, uint8_t * d, size_t n, bool, bool) {
        if (p != target) return;
        for (size_t i = 0; i < n; i++) d[i] = (uint8_t)(i < 8 ? (value >> (8 * i)) : 0);
        hits++;
    }
    template<class T> void vec(const std::string &, std::vector<T> &) {}
    template<class C> void str(const std::string &, std::basic_string<C> &) {}
};

struct VarInfo { std::string path; size_t elem; void * data; size_t count; };
struct ScalarInfo { std::string path; uint8_t * addr; size_t size; };

struct ListV : VisitorBase<ListV> {
    std::vector<VarInfo> vars;
    std::vector<ScalarInfo> scalars;
    void scalar(const std::string & p, uint8_t * d, size_t n, bool, bool) { scalars.push_back({p, d, n}); }
    template<class T> void vec(const std::string & p, std::vector<T> & v) { vars.push_back({p, sizeof(T), (void *)v.data(), v.size()}); }
    template<class T> void vec_struct_begin(const std::string & p, std::vector<T> & v) { vars.push_back({p, sizeof(T), (void *)v.data(), v.size()}); }
    template<class C> void str(const std::string & p, std::basic_string<C> & s) { vars.push_back({p, sizeof(C), (void *)s.data(), s.size()}); }
};

inline bool set_scalar(Vector::BLF::ObjectHeaderBase & o, const std::string & path, uint64_t value) {
    SetV s;
    s.target = path;
    s.value = value;
    refl::dispatch(o, s);
    return s.hits > 0;
}

}  // namespace rv
