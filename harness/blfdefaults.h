/* Caller-side header defaults taken from the library's own FileStatistics object (a changed default is not a defect). */
#pragma once
#include <Vector/BLF/FileStatistics.h>

#include "blfasm.h"

inline blfasm::Header library_header_defaults() {
    Vector::BLF::FileStatistics fs;
    blfasm::Header h;
    h.apiNumber = fs.apiNumber;
    h.applicationId = fs.applicationId;
    h.compressionLevel = fs.compressionLevel;
    h.applicationMajor = fs.applicationMajor;
    h.applicationMinor = fs.applicationMinor;
    h.applicationBuild = fs.applicationBuild;
    memcpy(h.start, &fs.measurementStartTime, 16);
    memcpy(h.last, &fs.lastObjectTime, 16);
    h.restorePointsOffset = fs.restorePointsOffset;
    for (int i = 0; i < 16; i++) h.reserved[i] = fs.reservedFileStatistics[i];
    return h;
}
