/* C13: call histories of the File API against a reference session machine, with release accounting.
 *
 * hist=<ops> with ops separated by '.':  M open(missing file)  U open(unwritable path, out)  I open(valid file, in)
 *   O open(out)  A open again (the same call as the successful open)  B open again in the other direction  R read  W write(obj)  C close  D destroy (last)
 * buf=<stream buffer bound, 0 = default>  q=<object queue capacity>
 * n=<objects in the valid input file>  bound=<deviation bound>  static=1 (the 6 static priority orders)
 *
 * Oracle: is_open() after every step, good()/eof() in read mode per the reference machine, objects delivered are the
 * file's objects in order, every object passed to write() destroyed exactly once by the time the File is gone, the
 * live-allocation count returns to its value before the history, every thread finished and joined, a closed write
 * session left the reference assembly of the written objects on disk.
 */
#include <Vector/BLF.h>

#include <sstream>

#include "alloccap.h"
#include "blfasm.h"
#include "blfdefaults.h"
#include "explore.h"
#include "memfile.h"

using namespace Vector::BLF;

static std::vector<std::string> OPS;
static long NOBJ, QCAP, BUF;
static std::string INPATH, OUTPATH, MISSING, UNWRITABLE;
static std::vector<blfasm::Bytes> ENC;
static int g_dtor[128];
static int g_made;

/* a counting object that encodes like a CAN message (the concrete classes are final) */
struct Counted : ObjectHeader {
    int serial;
    uint16_t channel = 1;
    uint8_t flags = 0, dlc = 8;
    uint32_t id;
    uint8_t data[8];
    explicit Counted(int s) : ObjectHeader(ObjectType::CAN_MESSAGE), serial(s), id(0x100 + s) {
        for (int i = 0; i < 8; i++) data[i] = (uint8_t)(s * 16 + i);
        objectTimeStamp = 1000 + s;
    }
    ~Counted() override { g_dtor[serial & 127]++; }
    void write(AbstractFile & os) override {
        ObjectHeader::write(os);
        os.write(reinterpret_cast<char *>(&channel), 2);
        os.write(reinterpret_cast<char *>(&flags), 1);
        os.write(reinterpret_cast<char *>(&dlc), 1);
        os.write(reinterpret_cast<char *>(&id), 4);
        os.write(reinterpret_cast<char *>(data), 8);
    }
    uint32_t calculateObjectSize() const override { return ObjectHeader::calculateObjectSize() + 16; }
};

static void prepare() {
    blfasm::Bytes stream;
    for (long i = 0; i < std::max<long>(NOBJ, 64); i++) {
        Counted c((int)i);
        MemFile m;
        c.write(m);
        if ((long)ENC.size() < 128) ENC.push_back(m.data);
        if (i < NOBJ) blfasm::put(stream, m.data.data(), m.data.size());
    }
    for (int & d : g_dtor) d = 0;
    blfasm::save(INPATH, blfasm::file_bytes(stream, 100, 0, false, (uint32_t)NOBJ));
}

static std::string body() {
    std::string obs, err;
    obs.reserve(128);
    err.reserve(512);
    for (int & d : g_dtor) d = 0;
    g_made = 0;
    alloccap::big_requests = 0;
    long live0 = alloccap::live_blocks;
    enum { NEVER, OPEN_IN, OPEN_OUT, CLOSED_IN, CLOSED_OUT } st = NEVER;
    long delivered = 0, written = 0;
    bool saw_null = false, read_any = false;
    {
        std::unique_ptr<File> f(new File);
        f->m_readWriteQueue.setBufferSize((uint32_t)QCAP);
        if (BUF > 0) f->m_uncompressedFile.setBufferSize(BUF);   /* smaller than the file: the inflating stage blocks on buffer space */
        for (size_t k = 0; k < OPS.size() && err.empty(); k++) {
            const std::string & op = OPS[k];
            std::string at = " (step " + std::to_string(k) + " '" + op + "')";
            bool open = st == OPEN_IN || st == OPEN_OUT;
            if (op == "M") { f->open(MISSING.c_str()); }
            else if (op == "U") { f->open(UNWRITABLE.c_str(), std::ios_base::out); }
            else if (op == "I") { f->open(INPATH.c_str()); if (!open) { if (st == NEVER) st = OPEN_IN; } }
            else if (op == "O") {
                f->compressionLevel = 0;
                f->writeRestorePoints = false;
                f->setDefaultLogContainerSize(100);
                f->open(OUTPATH.c_str(), std::ios_base::out);
                if (!open && st == NEVER) st = OPEN_OUT;
            }
            else if (op == "A") {
                if (st == OPEN_IN) f->open(INPATH.c_str());
                else if (st == OPEN_OUT) f->open(OUTPATH.c_str(), std::ios_base::out);
            }
            else if (op == "B") {
                /* open again in the other direction: ignored as well, the session keeps its mode */
                if (st == OPEN_IN) f->open(OUTPATH.c_str(), std::ios_base::out);
                else if (st == OPEN_OUT) f->open(INPATH.c_str());
            }
            else if (op == "R") {
                ObjectHeaderBase * o = f->read();
                read_any = true;
                if (o) {
                    if (saw_null) err = "object delivered after a null result" + at;
                    else if (delivered >= NOBJ) err = "more objects delivered than the file holds" + at;
                    else {
                        MemFile m;
                        o->write(m);
                        if (m.data != ENC[delivered]) err = "object " + std::to_string(delivered) + " delivered modified or out of order" + at;
                    }
                    delivered++;
                    if (st == OPEN_IN && err.empty() && (!f->good() || f->eof())) err = "good()/eof() wrong after a delivered object" + at;
                    o->objectType = ObjectType::UNKNOWN;
                    delete o;
                    obs += "o";
                } else {
                    if (st == OPEN_IN && delivered != NOBJ) err = "null result after " + std::to_string(delivered) + " of " + std::to_string(NOBJ) + " objects in an open session" + at;
                    if (err.empty() && (f->good() || !f->eof())) err = "null result but good()/eof() do not report end of file" + at;
                    saw_null = true;
                    obs += "n";
                }
            }
            else if (op == "W") { f->write(new Counted(g_made++)); written++; obs += "w"; }
            else if (op == "N") {
                /* write(nullptr): not an object, outside the property's alphabet. Whatever the library does with it (ignore it,
                 * throw), the guarantees for the real objects of the session must survive it. */
                try { f->write(nullptr); } catch (const std::exception &) {}
                obs += "0";
            }
            else if (op == "C") { f->close(); if (st == OPEN_IN) st = CLOSED_IN; else if (st == OPEN_OUT) st = CLOSED_OUT; obs += "c"; }
            else if (op == "D") { f.reset(); obs += "d"; break; }
            if (!f) break;
            bool want_open = st == OPEN_IN || st == OPEN_OUT;
            if (err.empty() && f->is_open() != want_open) err = std::string("is_open() is ") + (f->is_open() ? "true" : "false") + " but the session is " + (want_open ? "open" : "not open") + at;
            if (err.empty() && st == OPEN_IN && !read_any && (!f->good() || f->eof())) err = "good()/eof() wrong before the first read" + at;
        }
        if (f) f.reset();
    }
    if (!err.empty()) throw vx::Violation("session-state", err);
    for (int i = 0; i < g_made; i++)
        if (g_dtor[i] != 1) throw vx::Violation("release", "object " + std::to_string(i) + " passed to write() was destroyed " + std::to_string(g_dtor[i]) + " times");
    long live1 = alloccap::live_blocks;
    if (live1 != live0) throw vx::Violation("leak", std::to_string(live1 - live0) + " allocations still live after the File is gone");
    if (alloccap::big_requests) throw vx::Violation("alloc-cap", "allocation above the cap requested");
    if (st == CLOSED_OUT || (st == OPEN_OUT)) {
        /* closed (or destroyed) write session: all written objects are on disk */
        blfasm::Bytes stream;
        for (long i = 0; i < written; i++) blfasm::put(stream, ENC[i].data(), ENC[i].size());
        blfasm::Bytes got = blfasm::load(OUTPATH);
        std::string bad = blfasm::verify(got, stream, 100, 0, false, (uint32_t)written, library_header_defaults());
        if (!bad.empty()) throw vx::Violation("wrong-file", "the file of the finished write session (" + std::to_string(written) + " objects written): " + bad);
    }
    return obs;
}

static int run_config(const vx::Args & args) {
    OPS.clear();
    std::istringstream in(args.str("hist", "I.R.C.D"));
    for (std::string t; std::getline(in, t, '.');) OPS.push_back(t);
    NOBJ = args.num("n", 3);
    QCAP = args.num("q", 10);
    BUF = args.num("buf", 0);
    alloccap::cap = (size_t)64 << 20;
    vx::Options opt;
    opt.bound = 0;
    opt.horizon = 2000000;
    args.apply(opt);
    if (opt.static_family) opt.prio = {0, 1, 2};
    std::string scratch = vx::make_scratch();
    INPATH = scratch + "/in.blf";
    OUTPATH = scratch + "/out.blf";
    MISSING = scratch + "/does-not-exist.blf";
    UNWRITABLE = scratch + "/no-such-dir/out.blf";
    return vx::supervise("hist", args, opt, [&](vx::Explorer & ex) {
        prepare();
        ex.body = body;
        ex.explore();
    }, scratch);
}

int main(int argc, char ** argv) {
    int rc = vx::run_batch(argc, argv, run_config);
    vx::remove_scratch(vx::make_scratch());
    return rc;
}
