/* Crash-point and byte-fault enumeration (C08, C10): every truncation offset / every member of finite,
 * explicitly defined mutation sets of seed files is materialised and read through File (open, read loop, close)
 * under the deterministic scheduler in the AddressSanitizer+UBSan build.
 *
 * args: mode=trunc|mutate  seed=<n>|ref:<path>  level=<l> cont=<c>  sets=M1,M2,M3,M4,M5,M6  order=<static priority order 0..5|-1>
 *       shard=i/n  alloccap=<bytes>  list=1
 */
#include <Vector/BLF.h>

#include <zlib.h>

#include <regex>
#include <set>
#include <sstream>

#include "alloccap.h"
#include "blfasm.h"
#include "explore.h"
#include "memfile.h"
#include "universe.h"

using namespace Vector::BLF;
typedef std::vector<uint8_t> Bytes;

struct ObjInfo { size_t off, size, padded; Bytes enc; std::vector<std::pair<size_t, size_t>> struct_fields; /* (offset in stream, width) */ };
struct Seed {
    std::string name;
    Bytes stream;
    std::vector<ObjInfo> objs;
    Bytes file;
    blfasm::Layout lay;
    long level = 0, cont = 64;
};

struct Shared {
    volatile long index;      /* mutant being processed */
    volatile long done;       /* mutants completed */
    volatile long evals;
    volatile int nviol;
    char label[768];
    char viol[64][700];
    char vkey[64][160];
};
static Shared * g_sh;
static std::string g_path;
static int g_order = -1;

static void add_violation(const std::string & key, const std::string & what) {
    for (int i = 0; i < g_sh->nviol; i++) if (key == g_sh->vkey[i]) return;
    if (g_sh->nviol >= 64) return;
    int i = g_sh->nviol;
    snprintf(g_sh->vkey[i], sizeof g_sh->vkey[i], "%s", key.c_str());
    snprintf(g_sh->viol[i], sizeof g_sh->viol[i], "%s", what.c_str());
    g_sh->nviol = i + 1;
}

static bool structural(const std::string & leaf) {
    static const std::regex re("(Length|length|Len$|len$|Size|size|Count|count|flags|Flags|Offset|offset|dlc|Dlc|validDataBytes|objectType|apiMajor|Version|version|numberOf|NumberOf|frameLength|msgLen)");
    return std::regex_search(leaf, re);
}

static std::vector<uni::Spec> seed_specs(int seed) {
    std::vector<uni::Spec> out;
    if (seed == 0) {
        /* small mixed alphabet */
        for (const char * c : {"CanMessage", "AppText", "CanMessage2", "LinMessage2", "SerialEvent", "RestorePointContainer", "EnvironmentVariable", "CanFdMessage64", "EthernetFrame", "GlobalMarker"}) {
            uni::Spec s;
            s.cls = refl::class_by_name(c);
            if (!s.cls) continue;
            s.deflen = 3;
            if (std::string(c) == "SerialEvent") s.sel = {{"flags", 1}};
            if (std::string(c) == "EnvironmentVariable") s.code = 8;
            if (std::string(c) == "CanFdMessage64") s.sel = {{"extDataOffset", 0}};
            out.push_back(s);
        }
        return out;
    }
    /* seeds 1..4: every class, in four groups; variable members get 2..5 elements */
    int k = 0;
    for (auto & c : refl::classes()) {
        if ((k++ % 4) != (seed - 1)) continue;
        uni::Spec s;
        s.cls = &c;
        s.deflen = 2 + (k % 4);
        if (c.codes.size() > 1) s.code = c.codes[k % c.codes.size()];
        auto alts = uni::selectors(c.name);
        s.sel = alts[k % alts.size()];
        for (auto it = s.sel.begin(); it != s.sel.end();) it = (it->first == "objectSize") ? s.sel.erase(it) : it + 1;
        out.push_back(s);
    }
    return out;
}

static Seed make_seed(int seedno, long level, long cont, bool final_header = true) {
    Seed sd;
    sd.level = level;
    sd.cont = cont;
    sd.name = "seed" + std::to_string(seedno) + "/lv" + std::to_string(level) + "/c" + std::to_string(cont);
    uint32_t counted = 0;
    for (auto & sp : seed_specs(seedno)) {
        std::unique_ptr<ObjectHeaderBase> o(uni::build(sp));
        MemFile mf;
        mf.record = true;
        o->write(mf);
        ObjInfo oi;
        oi.off = sd.stream.size();
        oi.enc = mf.data;
        oi.padded = mf.data.size();
        oi.size = mf.data.size() >= 12 ? (size_t)(mf.data[8] | mf.data[9] << 8 | mf.data[10] << 16 | (size_t)mf.data[11] << 24) : mf.data.size();
        rv::ListV l;
        refl::dispatch(*o, l);
        for (auto & sc : l.scalars) {
            std::string leaf = sc.path.substr(sc.path.rfind('.') == std::string::npos ? 0 : sc.path.rfind('.') + 1);
            if (!structural(leaf) && leaf != "headerSize" && leaf != "objectSize") continue;
            for (auto & c : mf.chunks) if (c.src == sc.addr && c.len <= 8) oi.struct_fields.push_back({oi.off + c.off, c.len});
        }
        if ((uint32_t)o->objectType != 115) counted++;
        sd.objs.push_back(oi);
        blfasm::put(sd.stream, mf.data.data(), mf.data.size());
    }
    sd.file = blfasm::file_bytes(sd.stream, (size_t)cont, (int)level, false, counted, blfasm::Header(), &sd.lay, final_header);
    return sd;
}

struct Outcome { long objects = 0; bool open_threw = false; bool opened = false; std::vector<Bytes> encs; bool too_many = false; };

/* one read session over the file at g_path */
static Outcome read_session(size_t file_size, bool keep_encs) {
    Outcome oc;
    vs_config_t cfg;
    memset(&cfg, 0, sizeof cfg);
    cfg.fairness_k = 400;
    cfg.horizon = 20000000;
    cfg.change_at = -1;
    if (g_order >= 0) {
        static const int perms[6][3] = {{0, 1, 2}, {0, 2, 1}, {1, 0, 2}, {1, 2, 0}, {2, 0, 1}, {2, 1, 0}};
        cfg.policy = 1;
        for (int i = 0; i < 3; i++) cfg.prio[i] = cfg.prio2[i] = perms[g_order][i];
    }
    alloccap::big_requests = 0;
    oc.encs.reserve(keep_encs ? 64 : 0);
    long live0 = alloccap::live_blocks;
    vs_begin(nullptr, 0, &cfg);
    {
        File f;
        try {
            f.open(g_path.c_str());
        } catch (Vector::BLF::Exception &) {
            oc.open_threw = true;
        }
        if (!oc.open_threw && f.is_open()) {
            oc.opened = true;
            long limit = (long)(file_size / 16) + 1;
            /* an inflated stream can be larger than the file: allow what the containers can hold */
            limit = std::max<long>(limit, 4096);
            for (;;) {
                ObjectHeaderBase * o = f.read();
                if (!o) break;
                oc.objects++;
                if (keep_encs) { MemFile m; try { o->write(m); } catch (...) {} oc.encs.push_back(m.data); }
                delete o;
                if (oc.objects > limit) { oc.too_many = true; break; }
            }
            f.close();
        }
    }
    vs_result_t vr;
    vs_end(&vr);
    if (vr.left_running) add_violation("thread-left", std::string("a worker thread outlived close(): ") + g_sh->label);
    if (!keep_encs) {
        long live1 = alloccap::live_blocks;
        if (live1 != live0) add_violation("leak", std::to_string(live1 - live0) + " allocation(s) still live after the File is gone: " + g_sh->label);
    }
    return oc;
}

/* ---------------- C08 ---------------- */
static void run_trunc(const Seed & sd, long from, long to, int step_shard, int nshards, const std::string & hdrkind) {
    long prev_count = -1;
    (void)prev_count;
    for (long t = from; t <= to; t++) {
        if ((t % nshards) != step_shard) continue;
        if (t < g_sh->index) continue;
        g_sh->index = t;
        snprintf(g_sh->label, sizeof g_sh->label, "%s %s header, cut at byte %ld of %zu, priority order %d", sd.name.c_str(), hdrkind.c_str(), t, sd.file.size(), g_order);
        Bytes cut(sd.file.begin(), sd.file.begin() + t);
        blfasm::save(g_path, cut);
        g_sh->evals++;
        Outcome oc = read_session(cut.size(), true);
        /* expectation from the layout: K = containers completely stored (with / without their padding) */
        size_t plo = 0, phi = 0;
        for (size_t i = 0; i < sd.lay.container_off.size(); i++) {
            size_t end_with_pad = sd.lay.container_off[i] + sd.lay.container_len[i];
            uint32_t osz = 0;
            memcpy(&osz, &sd.file[sd.lay.container_off[i] + 8], 4);
            size_t end_no_pad = sd.lay.container_off[i] + osz;
            uint32_t usz = 0;
            memcpy(&usz, &sd.file[sd.lay.container_off[i] + 24], 4);
            /* a container is completely stored when its objectSize bytes are; the alignment bytes behind it are not part of it */
            (void)end_with_pad;
            if (end_no_pad <= (size_t)t) { plo += usz; phi += usz; } else break;
        }
        long lo = 0, hi = 0;
        for (auto & o : sd.objs) {
            if (o.off + o.size <= plo) lo++;
            if (o.off + o.size <= phi) hi++;
        }
        std::string key_base = hdrkind + "|lv" + std::to_string(sd.level) + "|c" + std::to_string(sd.cont);
        if (!oc.opened && !oc.open_threw) { add_violation(key_base + "|open", std::string("open() neither threw the library's exception nor opened the file: ") + g_sh->label); continue; }
        if (oc.open_threw) {
            if (t >= 144) add_violation(key_base + "|open-throws", std::string("open() throws although the complete header is present: ") + g_sh->label);
            continue;
        }
        if (oc.objects < lo || oc.objects > hi) {
            char b[256];
            snprintf(b, sizeof b, "%ld objects delivered, expected between %ld and %ld (objects wholly inside completely stored containers): ", oc.objects, lo, hi);
            add_violation(key_base + (oc.objects < lo ? "|too-few" : "|too-many"), std::string(b) + g_sh->label);
        }
        for (long i = 0; i < oc.objects && i < (long)sd.objs.size(); i++)
            if (oc.encs[i] != sd.objs[i].enc) { add_violation(key_base + "|modified", "object " + std::to_string(i) + " delivered modified: " + g_sh->label); break; }
        if (alloccap::big_requests) add_violation(key_base + "|alloc", std::string("allocation above the cap requested: ") + g_sh->label);
        g_sh->done = t + 1;
        printf("T %s %s %d %ld %ld\n", sd.name.c_str(), hdrkind.c_str(), g_order, t, oc.objects);
    }
}

/* ---------------- C10 ---------------- */
struct Mutant { std::string desc; Bytes file; };

static const uint64_t BOUND[] = {0ull, 1ull, 0x7f, 0x80, 0xff};   /* per width expanded below */

static uint64_t boundary(int which, int width) {
    switch (which) {
    case 0: return 0;
    case 1: return 1;
    case 2: return (width >= 8 ? ~0ull : ((1ull << (8 * width)) - 1)) >> 1;          /* 0x7f.. */
    case 3: return 1ull << (8 * width - 1);                                          /* 0x80.. */
    default: return width >= 8 ? ~0ull : ((1ull << (8 * width)) - 1);                /* 0xff.. */
    }
}

static void put_le(Bytes & b, size_t off, uint64_t v, int width) { for (int i = 0; i < width && off + i < b.size(); i++) b[off + i] = (uint8_t)(v >> (8 * i)); }
static uint64_t get_le(const Bytes & b, size_t off, int width) { uint64_t v = 0; for (int i = 0; i < width && off + i < b.size(); i++) v |= (uint64_t)b[off + i] << (8 * i); return v; }

/* enumerates the mutation sets; f(index, desc, bytes) is called for the members of this shard */
template<class F>
static long enumerate(const Seed & sd, const std::set<std::string> & sets, int shard, int nshards, long start, F f, bool count_only = false) {
    long idx = 0;
    auto emit = [&](const std::string & d, const Bytes & b) {
        long i = idx++;
        if ((i % nshards) != shard || i < start || count_only) return;
        f(i, d, b);
    };
    const Bytes & F0 = sd.file;
    char d[200];
    if (sets.count("M1"))
        for (size_t off = 0; off < F0.size(); off++) {
            uint8_t o = F0[off];
            uint8_t vals[8] = {0x00, 0x01, 0x7f, 0x80, 0xfe, 0xff, (uint8_t)(o ^ 0x01), (uint8_t)(o ^ 0x80)};
            std::set<int> seen;
            for (uint8_t v : vals) {
                if (v == o || !seen.insert(v).second) continue;
                if (count_only || ((idx % nshards) != shard) || idx < start) { idx++; continue; }
                Bytes b = F0;
                b[off] = v;
                snprintf(d, sizeof d, "M1 byte %zu := 0x%02x", off, v);
                emit(d, b);
            }
        }
    if (sets.count("M2"))
        for (int width : {2, 4})
            for (size_t off = 0; off + width <= F0.size(); off += width)
                for (int w = 0; w < 5; w++) {
                    uint64_t v = boundary(w, width);
                    if (v == get_le(F0, off, width)) continue;
                    if (count_only || ((idx % nshards) != shard) || idx < start) { idx++; continue; }
                    Bytes b = F0;
                    put_le(b, off, v, width);
                    snprintf(d, sizeof d, "M2 %d-byte word at %zu := 0x%llx", width, off, (unsigned long long)v);
                    emit(d, b);
                }
    if (sets.count("M3"))
        for (size_t t = 0; t < F0.size(); t++) {
            if (count_only || ((idx % nshards) != shard) || idx < start) { idx++; continue; }
            snprintf(d, sizeof d, "M3 truncated to %zu bytes", t);
            emit(d, Bytes(F0.begin(), F0.begin() + t));
        }
    if (sets.count("M4"))
        for (size_t len : {1, 2, 4, 8, 16, 32})
            for (size_t off = 0; off + len <= F0.size(); off++) {
                for (int dup = 0; dup < 2; dup++) {
                    if (count_only || ((idx % nshards) != shard) || idx < start) { idx++; continue; }
                    Bytes b = F0;
                    if (dup) b.insert(b.begin() + off, F0.begin() + off, F0.begin() + off + len);
                    else b.erase(b.begin() + off, b.begin() + off + len);
                    snprintf(d, sizeof d, "M4 block [%zu,%zu) %s", off, off + len, dup ? "duplicated" : "deleted");
                    emit(d, b);
                }
            }
    auto repack = [&](const Bytes & stream, int method_level) {
        return blfasm::file_bytes(stream, (size_t)sd.cont, method_level, false, (uint32_t)sd.objs.size());
    };
    if (sets.count("M5")) {
        const Bytes & S = sd.stream;
        for (int lvl : {0, 6}) {
            for (size_t off = 0; off < S.size(); off++) {
                uint8_t o = S[off];
                uint8_t vals[8] = {0x00, 0x01, 0x7f, 0x80, 0xfe, 0xff, (uint8_t)(o ^ 0x01), (uint8_t)(o ^ 0x80)};
                std::set<int> seen;
                for (uint8_t v : vals) {
                    if (v == o || !seen.insert(v).second) continue;
                    if (lvl == 6 && (v == (uint8_t)(o ^ 1) || v == 0x01 || v == 0xfe)) continue;   /* method 2: the coarser value set */
                    if (count_only || ((idx % nshards) != shard) || idx < start) { idx++; continue; }
                    Bytes s = S;
                    s[off] = v;
                    snprintf(d, sizeof d, "M5 stream byte %zu := 0x%02x, repacked level %d", off, v, lvl);
                    emit(d, repack(s, lvl));
                }
            }
            for (int width : {2, 4})
                for (size_t off = 0; off + width <= S.size(); off += width)
                    for (int w = 0; w < 5; w++) {
                        uint64_t v = boundary(w, width);
                        if (v == get_le(S, off, width)) continue;
                        if (count_only || ((idx % nshards) != shard) || idx < start) { idx++; continue; }
                        Bytes s = S;
                        put_le(s, off, v, width);
                        snprintf(d, sizeof d, "M5 stream %d-byte word at %zu := 0x%llx, repacked level %d", width, off, (unsigned long long)v, lvl);
                        emit(d, repack(s, lvl));
                    }
        }
    }
    if (sets.count("M6")) {
        const Bytes & S = sd.stream;
        for (size_t oi = 0; oi < sd.objs.size(); oi++) {
            auto & fl = sd.objs[oi].struct_fields;
            auto values = [&](size_t off, int width) {
                uint64_t a = get_le(S, off, width);
                uint64_t mask = width >= 8 ? ~0ull : ((1ull << (8 * width)) - 1);
                std::vector<uint64_t> v = {0, 1, (a - 1) & mask, (a + 1) & mask, boundary(2, width), boundary(3, width), boundary(4, width)};
                std::vector<uint64_t> out;
                for (uint64_t x : v) if (x != a && std::find(out.begin(), out.end(), x) == out.end()) out.push_back(x);
                return out;
            };
            for (auto & fa : fl)
                for (uint64_t v : values(fa.first, (int)fa.second)) {
                    if (count_only || ((idx % nshards) != shard) || idx < start) { idx++; continue; }
                    Bytes s = S;
                    put_le(s, fa.first, v, (int)fa.second);
                    snprintf(d, sizeof d, "M6 object %zu field at stream offset %zu (%zu bytes) := 0x%llx", oi, fa.first, fa.second, (unsigned long long)v);
                    emit(d, repack(s, 0));
                }
            for (size_t a = 0; a < fl.size(); a++)
                for (size_t b2 = a + 1; b2 < fl.size(); b2++)
                    for (int va = 0; va < 3; va++)
                        for (int vb = 0; vb < 3; vb++) {
                            if (count_only || ((idx % nshards) != shard) || idx < start) { idx++; continue; }
                            auto pick = [&](size_t off, int width, int w) -> uint64_t {
                                uint64_t cur = get_le(S, off, width);
                                return w == 0 ? 0 : w == 1 ? cur + 1 : boundary(4, width);
                            };
                            Bytes s = S;
                            put_le(s, fl[a].first, pick(fl[a].first, (int)fl[a].second, va), (int)fl[a].second);
                            put_le(s, fl[b2].first, pick(fl[b2].first, (int)fl[b2].second, vb), (int)fl[b2].second);
                            snprintf(d, sizeof d, "M6 object %zu fields at %zu and %zu := patterns %d,%d", oi, fl[a].first, fl[b2].first, va, vb);
                            emit(d, repack(s, 0));
                        }
        }
    }
    return idx;
}

static Seed ref_seed(const std::string & path) {
    Seed sd;
    sd.name = "ref:" + path.substr(path.rfind('/', path.rfind('/') - 1) + 1);
    sd.file = blfasm::load(path);
    sd.cont = 0x20000;
    return sd;
}

int main(int argc, char ** argv) {
    vx::Args args(argc, argv);
    std::string mode = args.str("mode", "mutate");
    int shard = 0, nshards = 1;
    std::string sh = args.str("shard", "");
    if (!sh.empty()) sscanf(sh.c_str(), "%d/%d", &shard, &nshards);
    std::string seedarg = args.str("seed", "0");
    long level = args.num("level", 0), cont = args.num("cont", 64);
    g_order = (int)args.num("order", -1);
    alloccap::cap = (size_t)args.num("alloccap", 256 << 20);
    std::set<std::string> sets;
    {
        std::string s = args.str("sets", "M1,M2,M3,M4,M5,M6");
        std::istringstream in(s);
        for (std::string t; std::getline(in, t, ',');) sets.insert(t);
    }
    g_sh = (Shared *)mmap(0, sizeof(Shared), PROT_READ | PROT_WRITE, MAP_SHARED | MAP_ANONYMOUS, -1, 0);
    memset((void *)g_sh, 0, sizeof(Shared));
    std::string scratch = vx::make_scratch(), errfile = scratch + "/err.txt";
    g_path = scratch + "/m.blf";
    double t0 = vx::now_s();
    Seed sd;
    bool is_ref = seedarg.compare(0, 4, "ref:") == 0;
    bool initial_header = args.num("initialheader", 0) != 0;
    if (is_ref) { sd = ref_seed(seedarg.substr(4)); sets.erase("M5"); sets.erase("M6"); }
    else sd = make_seed(atoi(seedarg.c_str()), level, cont, !initial_header);
    long total = mode == "mutate" ? enumerate(sd, sets, shard, nshards, 0, [](long, const std::string &, const Bytes &) {}, true) : (long)sd.file.size() + 1;
    if (args.num("list", 0)) { printf("%s: %ld members\n", sd.name.c_str(), total); return 0; }
    int restarts = 0, unconfirmed = 0;
    std::string grep = args.str("grep", ""), dump = args.str("dump", "");
    std::vector<std::string> crash_viol;
    long start = 0;
    std::string raw_lines;
    for (;;) {
        fflush(stdout);
        pid_t pid = fork();
        if (pid == 0) {
            int fd = open(errfile.c_str(), O_WRONLY | O_CREAT | O_TRUNC, 0644);
            if (fd >= 0) { dup2(fd, 2); close(fd); }
            g_sh->index = start;
            long processed = 0;
            if (mode == "trunc") run_trunc(sd, 0, (long)sd.file.size(), shard, nshards, initial_header ? "initial" : "final");
            else
                enumerate(sd, sets, shard, nshards, start, [&](long i, const std::string & desc, const Bytes & b) {
                    if (!grep.empty() && desc.find(grep) == std::string::npos) return;
                    if (!dump.empty()) blfasm::save(dump, b);
                    g_sh->index = i;
                    snprintf(g_sh->label, sizeof g_sh->label, "%s: %s", sd.name.c_str(), desc.c_str());
                    blfasm::save(g_path, b);
                    g_sh->evals++;
                    Outcome oc = read_session(b.size(), false);
                    std::string mset = desc.substr(0, 2);
                    if (!oc.opened && !oc.open_threw) add_violation(mset + "|open", std::string("open() neither threw the library's exception nor opened the file: ") + g_sh->label);
                    if (oc.too_many) add_violation(mset + "|endless", std::string("the read loop delivers more objects than the input can hold: ") + g_sh->label);
                    g_sh->done = i + 1;
                    if (++processed >= 3000) { fflush(stdout); _exit(77); }   /* recycle the process: keeps sanitizer bookkeeping small */
                });
            fflush(stdout);
            _exit(0);
        }
        int status = 0;
        double lastprog = vx::now_s();
        long lastidx = -1;
        bool killed = false;
        for (;;) {
            pid_t r = waitpid(pid, &status, WNOHANG);
            if (r == pid) break;
            if (g_sh->index != lastidx) { lastidx = g_sh->index; lastprog = vx::now_s(); }
            else if (vx::now_s() - lastprog > args.real("watchdog", 20)) { kill(pid, SIGKILL); waitpid(pid, &status, 0); killed = true; break; }
            usleep(2000);
        }
        if (!killed && WIFEXITED(status) && WEXITSTATUS(status) == 0) break;
        if (!killed && WIFEXITED(status) && WEXITSTATUS(status) == 77) { start = g_sh->done; continue; }
        /* crash / sanitizer report / deadlock / watchdog on mutant g_sh->index: confirm it alone in a fresh process first
         * (a process that has run tens of thousands of sessions may die of resource exhaustion, which is not the library's) */
        if (mode == "mutate") {
            long bad = g_sh->index;
            fflush(stdout);
            pid_t p2 = fork();
            if (p2 == 0) {
                int fd = open(errfile.c_str(), O_WRONLY | O_CREAT | O_TRUNC, 0644);
                if (fd >= 0) { dup2(fd, 2); close(fd); }
                enumerate(sd, sets, shard, nshards, bad, [&](long i, const std::string & desc, const Bytes & b) {
                    if (i != bad) return;
                    snprintf(g_sh->label, sizeof g_sh->label, "%s: %s", sd.name.c_str(), desc.c_str());
                    blfasm::save(g_path, b);
                    read_session(b.size(), false);
                    _exit(0);
                });
                _exit(0);
            }
            int st2 = 0;
            double t1 = vx::now_s();
            bool k2 = false;
            for (;;) {
                pid_t r = waitpid(p2, &st2, WNOHANG);
                if (r == p2) break;
                if (vx::now_s() - t1 > 4 * args.real("watchdog", 20)) { kill(p2, SIGKILL); waitpid(p2, &st2, 0); k2 = true; break; }
                usleep(2000);
            }
            if (!k2 && WIFEXITED(st2) && WEXITSTATUS(st2) == 0) {
                unconfirmed++;
                start = bad + 1;
                if (++restarts > 200) break;
                continue;
            }
            status = st2;
            killed = k2;
        }
        std::string err = vx::read_tail(errfile, 4000), sum;
        std::istringstream es(err);
        for (std::string line; std::getline(es, line);)
            if (line.find("SUMMARY") != std::string::npos || line.find("runtime error") != std::string::npos || line.find("vs_fatal") != std::string::npos || line.find("terminate called") != std::string::npos) { sum = line; break; }
        std::string kind = killed ? "hang" : (WIFEXITED(status) && WEXITSTATUS(status) == 10) ? "deadlock-or-livelock"
                           : err.find("AddressSanitizer") != std::string::npos ? "memory-error" : err.find("runtime error") != std::string::npos ? "undefined-behaviour"
                           : err.find("terminate called") != std::string::npos ? "terminate" : "crash";
        /* key: kind + where (top frame of the summary) so that a different defect is reported separately */
        if (sum.empty()) { sum = err.substr(0, 400); for (auto & ch : sum) if (ch == '\n') ch = ' '; }
        if (sum.empty()) sum = WIFSIGNALED(status) ? "signal " + std::to_string(WTERMSIG(status)) : "exit status " + std::to_string(WEXITSTATUS(status));
        std::string where = sum;
        size_t inpos = where.rfind(" in ");
        if (inpos != std::string::npos) where = where.substr(inpos + 4);
        if (where.size() > 80) where = where.substr(0, 80);
        std::string key = kind + "|" + where;
        bool dup = false;
        for (auto & c : crash_viol) if (c.compare(0, key.size() + 1, key + "\t") == 0) dup = true;
        if (!dup) crash_viol.push_back(key + "\t" + kind + " (" + sum + ") on " + g_sh->label);
        start = g_sh->index + 1;
        if (++restarts > 200) { crash_viol.push_back("too-many-crashes\tgave up after 200 crashing members"); break; }
    }
    std::ostringstream o;
    o << "{\"harness\":\"fault\",\"params\":" << args.json() << ",\"seed\":\"" << vx::jesc(sd.name) << "\",\"members\":" << total << ",\"evaluations\":" << g_sh->evals
      << ",\"distinct\":" << g_sh->evals << ",\"restarts\":" << restarts << ",\"crashes_not_reproduced_alone\":" << unconfirmed << ",\"samples\":[\"" << vx::jesc(g_sh->label) << "\"],\"violations\":[";
    bool first = true;
    const char * prop = mode == "trunc" ? "C08" : "C10";
    for (int i = 0; i < g_sh->nviol; i++) {
        o << (first ? "" : ",") << "{\"prop\":\"" << prop << "\",\"key\":\"" << vx::jesc(g_sh->vkey[i]) << "\",\"what\":\"" << vx::jesc(g_sh->viol[i]) << "\",\"spec\":\"" << vx::jesc(sd.name) << "\",\"count\":1}";
        first = false;
    }
    for (auto & c : crash_viol) {
        size_t tab = c.find('\t');
        o << (first ? "" : ",") << "{\"prop\":\"" << prop << "\",\"key\":\"" << vx::jesc(c.substr(0, tab)) << "\",\"what\":\"" << vx::jesc(c.substr(tab + 1)) << "\",\"spec\":\"" << vx::jesc(sd.name) << "\",\"count\":1}";
        first = false;
    }
    o << "],\"wall_s\":" << (vx::now_s() - t0) << "}";
    printf("%s\n", o.str().c_str());
    vx::remove_scratch(scratch);
    return (g_sh->nviol || !crash_viol.empty()) ? 1 : 0;
}
