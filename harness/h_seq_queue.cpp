/* C16 (sequential half): explicit-state search over operation histories of the real
 * ObjectQueue<ObjectHeaderBase> against a reference bounded-FIFO model, to closure.
 * args: maxobj=<objects written at most> depth=<0 = closure> deadline=<s>
 */
#include <Vector/BLF/ObjectHeaderBase.h>
#include <Vector/BLF/ObjectQueue.h>

#include <cstdio>
#include <deque>
#include <limits>
#include <sstream>
#include <string>
#include <unordered_set>
#include <vector>

#include "explore.h"
#include "seqwatch.h"

using namespace Vector::BLF;

static int g_dtor[64];
struct Obj : ObjectHeaderBase {
    int serial;
    explicit Obj(int s) : ObjectHeaderBase(1, ObjectType::UNKNOWN), serial(s) {}
    ~Obj() override { g_dtor[serial & 63]++; }
};

enum Kind : uint8_t { WRITE, READ, SETFS, ABORT, SETCAP };
struct Op { Kind k; int a; };
static std::vector<Op> ALPHA;
static const uint32_t UMAX = std::numeric_limits<uint32_t>::max();

struct Model {
    std::deque<int> q;
    uint32_t tellg = 0, tellp = 0, fileSize = UMAX, cap = UMAX;
    bool abort = false, fail = false;
    int written = 0;
    bool enabled(const Op & o, int maxobj) const {
        switch (o.k) {
        case WRITE: return written < maxobj && (abort || q.size() < cap);
        case READ: return abort || !q.empty() || tellg >= fileSize;
        default: return true;
        }
    }
    std::string apply(const Op & o) {
        std::string ret = "-";
        switch (o.k) {
        case WRITE:
            q.push_back(written++);
            tellp++;
            if (tellp > fileSize) fileSize = tellp;
            break;
        case READ:
            if (q.empty()) { fail = true; ret = "null"; }
            else { ret = std::to_string(q.front()); q.pop_front(); fail = false; tellg++; }
            break;
        case SETFS: fileSize = o.a == 0 ? tellp : o.a == 1 ? tellp + 1 : tellg; break;
        case ABORT: abort = true; break;
        case SETCAP: cap = (uint32_t)o.a; break;
        }
        return obs(ret);
    }
    std::string obs(const std::string & ret) const {
        char b[128];
        snprintf(b, sizeof b, "ret=%s g=%u p=%u good=%d eof=%d", ret.c_str(), tellg, tellp, !fail, fail);
        return b;
    }
    std::string key() const {
        std::ostringstream o;
        o << "|M" << tellg << "," << tellp << "," << fileSize << "," << cap << "," << abort << fail << ":";
        for (int s : q) o << s << ".";
        return o.str();
    }
};

struct Real {
    ObjectQueue<ObjectHeaderBase> q;
    int written = 0;
    std::string apply(const Op & o) {
        std::string ret = "-";
        switch (o.k) {
        case WRITE: q.write(new Obj(written++)); break;
        case READ: {
            ObjectHeaderBase * p = q.read();
            if (!p) ret = "null";
            else { ret = std::to_string(static_cast<Obj *>(p)->serial); delete p; }
            break;
        }
        case SETFS: q.setFileSize(o.a == 0 ? q.tellp() : o.a == 1 ? q.tellp() + 1 : q.tellg()); break;
        case ABORT: q.abort(); break;
        case SETCAP: q.setBufferSize((uint32_t)o.a); break;
        }
        char b[128];
        snprintf(b, sizeof b, "ret=%s g=%u p=%u good=%d eof=%d", ret.c_str(), q.tellg(), q.tellp(), q.good(), q.eof());
        return b;
    }
    std::string key() {
        std::ostringstream o;
        o << "R" << q.m_tellg << "," << q.m_tellp << "," << q.m_fileSize << "," << q.m_bufferSize << "," << q.m_abort << (int)q.m_rdstate << ":";
        std::queue<ObjectHeaderBase *> c = q.m_queue;
        while (!c.empty()) { o << static_cast<Obj *>(c.front())->serial << "."; c.pop(); }
        return o.str();
    }
};

static std::string opname(const Op & o) {
    switch (o.k) {
    case WRITE: return "write";
    case READ: return "read";
    case SETFS: return o.a == 0 ? "setFileSize(tellp)" : o.a == 1 ? "setFileSize(tellp+1)" : "setFileSize(tellg)";
    case ABORT: return "abort";
    case SETCAP: return "setBufferSize(" + std::to_string(o.a) + ")";
    }
    return "?";
}
static std::string hist_str(const std::string & h) {
    std::string s;
    for (unsigned char c : h) s += (s.empty() ? "" : " ") + opname(ALPHA[c]);
    return s;
}

static bool run_history(const std::string & h, Model & m, std::string * rkey, std::string & why) {
    seqwatch::arm(h);
    for (int & d : g_dtor) d = 0;
    int written = 0;
    {
        Real r;
        for (unsigned char ci : h) {
            const Op & o = ALPHA[ci];
            std::string em = m.apply(o), er = r.apply(o);
            if (em != er) { why = "after " + opname(o) + ": model {" + em + "} real {" + er + "}"; return false; }
        }
        if (rkey) *rkey = r.key();
        written = r.written;
    }
    for (int i = 0; i < written; i++)
        if (g_dtor[i] != 1) { why = "object " + std::to_string(i) + " destroyed " + std::to_string(g_dtor[i]) + " times"; return false; }
    return true;
}

int main(int argc, char ** argv) {
    vx::Args args(argc, argv);
    int maxobj = (int)args.num("maxobj", 5);
    int depth = (int)args.num("depth", 0);
    double deadline = args.real("deadline", 1e9);
    std::string replay = args.str("replay", "");
    ALPHA = {{WRITE, 0}, {READ, 0}, {SETFS, 0}, {SETFS, 1}, {SETFS, 2}, {ABORT, 0}, {SETCAP, 1}, {SETCAP, 2}, {SETCAP, 3}};
    double t0 = vx::now_s();
    seqwatch::install("seq_queue", args.json(), hist_str);
    if (!replay.empty()) {
        std::string h;
        for (const char * p = replay.c_str(); *p;) { h.push_back((char)strtol(p, (char **)&p, 10)); if (*p == ',') p++; }
        Model m; std::string why;
        bool ok = run_history(h, m, nullptr, why);
        printf("{\"harness\":\"seq_queue\",\"history\":\"%s\",\"ok\":%s,\"detail\":\"%s\"}\n", vx::jesc(hist_str(h)).c_str(), ok ? "true" : "false", vx::jesc(why).c_str());
        return ok ? 0 : 1;
    }
    std::unordered_set<std::string> seen;
    std::deque<std::string> frontier;
    long states = 1, transitions = 0, maxdepth = 0, dchecks = 0;
    bool exhaustive = true, closed = true;
    std::string vh, vw;
    std::vector<std::string> samples;
    { Model m; Real r; seen.insert(r.key() + m.key()); frontier.push_back(""); }
    while (!frontier.empty() && vw.empty()) {
        if ((transitions & 1023) == 0 && vx::now_s() - t0 > deadline) { exhaustive = false; break; }
        std::string h = std::move(frontier.front());
        frontier.pop_front();
        if ((long)h.size() > maxdepth) maxdepth = (long)h.size();
        Model pm; std::string why;
        if (!run_history(h, pm, nullptr, why)) { vh = h; vw = why; break; }
        for (size_t oi = 0; oi < ALPHA.size(); oi++) {
            if (!pm.enabled(ALPHA[oi], maxobj)) continue;
            if (depth > 0 && (int)h.size() >= depth) { closed = false; continue; }
            std::string h2 = h;
            h2.push_back((char)oi);
            Model m; std::string rk;
            transitions++;
            if (!run_history(h2, m, &rk, why)) { vh = h2; vw = why; break; }
            std::string k = rk + m.key();
            if (seen.insert(k).second) {
                states++;
                frontier.push_back(h2);
                if (samples.size() < 3 && (states % 1009) == 5) samples.push_back(hist_str(h2));
            } else if ((transitions % 101) == 0) {
                Model m2; std::string rk2;
                run_history(h2, m2, &rk2, why);
                dchecks++;
                if (rk2 + m2.key() != k) { vh = h2; vw = "replay of the same history reached a different state"; break; }
            }
        }
    }
    if (samples.empty()) samples.push_back("write read");
    std::ostringstream o;
    o << "{\"harness\":\"seq_queue\",\"params\":" << args.json() << ",\"states\":" << states << ",\"transitions\":" << transitions
      << ",\"max_depth\":" << maxdepth << ",\"closed\":" << (closed && exhaustive && vw.empty() ? "true" : "false")
      << ",\"exhaustive\":" << (exhaustive ? "true" : "false") << ",\"replay_determinism_checks\":" << dchecks << ",\"samples\":[";
    for (size_t i = 0; i < samples.size(); i++) o << (i ? "," : "") << "\"" << vx::jesc(samples[i]) << "\"";
    o << "],\"violation\":";
    if (vw.empty()) o << "null";
    else {
        std::string idx;
        for (unsigned char ch : vh) idx += (idx.empty() ? "" : ",") + std::to_string((int)ch);
        o << "{\"kind\":\"model-mismatch\",\"detail\":\"" << vx::jesc(vw) << "\",\"history\":\"" << vx::jesc(hist_str(vh)) << "\",\"replay\":\"" << idx << "\"}";
    }
    o << ",\"wall_s\":" << (vx::now_s() - t0) << "}";
    printf("%s\n", o.str().c_str());
    return vw.empty() ? 0 : 1;
}
