/* C09: unknown object types and filler bytes are skipped without losing neighbours.
 *
 * Exhaustive over all filler strings over {L,O,B,J,x} without the substring "LOBJ" up to a length, placed
 * before / between / after three known objects, and over unknown type codes x declared sizes.
 * Seam: the real File::uncompressedFile2ReadWriteQueue() is driven sequentially on a File whose in-memory
 * stream was filled by the harness (one container, or two containers split at every offset); a sample of
 * the cases also runs as complete File sessions (real threads under the deterministic scheduler).
 *
 * args: mode=filler|unknown|session maxlen=<n> splitlen=<n> shard=i/n
 */
#include <Vector/BLF.h>

#include <set>
#include <sstream>

#include "alloccap.h"
#include "blfasm.h"
#include "explore.h"
#include "memfile.h"

using namespace Vector::BLF;

typedef std::vector<uint8_t> Bytes;
static std::vector<Bytes> KNOWN;   /* encodings of the three known objects (with their padding) */
static long g_eval = 0, g_nontrivial = 0;
static std::set<std::string> g_distinct_outcomes;
struct Viol { std::string key, what, spec; };
static std::vector<Viol> g_viol;
static std::map<std::string, int> g_keys;
struct Cur { char label[512]; };
static Cur * g_cur;

static void report(const std::string & key, const std::string & what, const std::string & spec) {
    if (g_keys[key]++ == 0 && g_viol.size() < 100) g_viol.push_back({key, what, spec});
}

static void prepare() {
    {
        CanMessage m;
        m.channel = 1; m.id = 0x123; m.dlc = 8;
        for (int i = 0; i < 8; i++) m.data[i] = (uint8_t)(0x10 + i);
        MemFile f; m.write(f); KNOWN.push_back(f.data);
    }
    {
        AppText a;
        a.text = "q";        /* objectSize 49: one padding byte follows */
        a.source = 7;
        MemFile f; a.write(f); KNOWN.push_back(f.data);
    }
    {
        LinMessage2 l;
        l.crc = 0x55;
        MemFile f; l.write(f); KNOWN.push_back(f.data);
    }
}

/* run the decoding stage over `stream` split into containers at the given offsets; returns the encodings delivered */
static bool decode_stream(const Bytes & stream, const std::vector<size_t> & cuts, std::vector<Bytes> & out, std::string & why) {
    File f;
    f.m_readWriteQueue.setBufferSize(0xffffffffu);
    size_t pos = 0;
    std::vector<size_t> c = cuts;
    c.push_back(stream.size());
    for (size_t e : c) {
        if (e <= pos && !(pos == 0 && e == 0)) continue;
        std::shared_ptr<LogContainer> lc(new LogContainer);
        lc->uncompressedFile.assign(stream.begin() + pos, stream.begin() + e);
        lc->uncompressedFileSize = (uint32_t)(e - pos);
        f.m_uncompressedFile.write(lc);
        pos = e;
    }
    f.m_uncompressedFile.setFileSize(f.m_uncompressedFile.tellp());
    long guard = 0;
    for (;;) {
        if (++guard > 100000) { why = "the decoding stage does not terminate"; return false; }
        try {
            f.uncompressedFile2ReadWriteQueue();
        } catch (Vector::BLF::Exception &) {
            break;
        }
        if (!f.m_uncompressedFile.good()) break;
    }
    while (!f.m_readWriteQueue.m_queue.empty()) {
        ObjectHeaderBase * o = f.m_readWriteQueue.m_queue.front();
        f.m_readWriteQueue.m_queue.pop();
        MemFile m;
        o->write(m);
        out.push_back(m.data);
        delete o;
    }
    return true;
}

static void check(const Bytes & stream, const std::vector<size_t> & cuts, const std::string & label, const std::string & keyclass) {
    g_eval++;
    {   /* non-trivial: the stream holds something besides the three known objects, or is split across containers */
        size_t plain = 0;
        for (auto & k : KNOWN) plain += k.size();
        if (stream.size() != plain || !cuts.empty()) g_nontrivial++;
    }
    snprintf(g_cur->label, sizeof g_cur->label, "%s", label.c_str());
    std::vector<Bytes> got;
    std::string why;
    vs_config_t cfg;
    memset(&cfg, 0, sizeof cfg);
    cfg.horizon = 50000000;
    cfg.change_at = -1;
    vs_begin(nullptr, 0, &cfg);
    bool ok = decode_stream(stream, cuts, got, why);
    vs_end(nullptr);
    if (!ok) { report(keyclass + "|hang", why, label); return; }
    std::string outcome = std::to_string(got.size());
    g_distinct_outcomes.insert(keyclass);
    if (got.size() != KNOWN.size()) { report(keyclass + "|count", std::to_string(got.size()) + " objects delivered instead of the " + std::to_string(KNOWN.size()) + " known objects in the stream", label); return; }
    for (size_t i = 0; i < got.size(); i++)
        if (got[i] != KNOWN[i]) { report(keyclass + "|modified", "known object " + std::to_string(i) + " was delivered modified", label); return; }
    if (alloccap::big_requests) { report(keyclass + "|alloc", "huge allocation requested", label); alloccap::big_requests = 0; }
}

static const char SYM[] = {'L', 'O', 'B', 'J', 'x'};

/* depth-first enumeration of all strings over SYM up to maxlen without the substring "LOBJ" (nothing is materialised) */
template<class F> static void for_fillers(int maxlen, F f) {
    std::string cur;
    std::function<void()> rec = [&]() {
        f(cur);
        if ((int)cur.size() >= maxlen) return;
        for (char c : SYM) {
            cur.push_back(c);
            if (!(cur.size() >= 4 && cur.compare(cur.size() - 4, 4, "LOBJ") == 0)) rec();
            cur.pop_back();
        }
    };
    rec();
}

static Bytes compose(const std::string & f0, const std::string & f1, const std::string & f2, const std::string & f3) {
    Bytes s;
    auto add = [&](const std::string & f) { s.insert(s.end(), f.begin(), f.end()); };
    add(f0); blfasm::put(s, KNOWN[0].data(), KNOWN[0].size());
    add(f1); blfasm::put(s, KNOWN[1].data(), KNOWN[1].size());
    add(f2); blfasm::put(s, KNOWN[2].data(), KNOWN[2].size());
    add(f3);
    return s;
}

static Bytes unknown_object(uint32_t type, uint32_t size, bool fake_sig, uint16_t hsize = 16, uint16_t hver = 1) {
    Bytes b;
    blfasm::putv<uint32_t>(b, 0x4A424F4C);
    blfasm::putv<uint16_t>(b, hsize);
    blfasm::putv<uint16_t>(b, hver);
    blfasm::putv<uint32_t>(b, size);
    blfasm::putv<uint32_t>(b, type);
    size_t body = size > 16 ? size - 16 : 0;
    for (size_t i = 0; i < body; i++) b.push_back((uint8_t)('a' + i % 7));
    if (fake_sig && body >= 8) memcpy(&b[16 + (body - 4) / 2], "LOBJ", 4);   /* skipped by size, not by searching */
    return b;
}

static std::string fatal_json(const vx::Args & args, const std::string & kind, const std::string & sum) {
    std::ostringstream o;
    o << "{\"harness\":\"resync\",\"params\":" << args.json() << ",\"evaluations\":1,\"distinct\":0,\"samples\":[],\"violations\":[{\"prop\":\"C09\",\"key\":\""
      << kind << "\",\"what\":\"" << vx::jesc(kind + " while decoding the stream: " + sum) << "\",\"spec\":\"" << vx::jesc(g_cur->label) << "\",\"count\":1}],\"wall_s\":0}";
    return o.str();
}

int main(int argc, char ** argv) {
    vx::Args args(argc, argv);
    std::string mode = args.str("mode", "filler");
    int shard = 0, nshards = 1;
    std::string sh = args.str("shard", "");
    if (!sh.empty()) sscanf(sh.c_str(), "%d/%d", &shard, &nshards);
    int maxlen = (int)args.num("maxlen", 7), splitlen = (int)args.num("splitlen", 3);
    g_cur = (Cur *)mmap(0, sizeof(Cur), PROT_READ | PROT_WRITE, MAP_SHARED | MAP_ANONYMOUS, -1, 0);
    std::string scratch = vx::make_scratch(), errfile = scratch + "/err.txt";
    double t0 = vx::now_s();
    fflush(stdout);
    pid_t pid = fork();
    if (pid == 0) {
        int fd = open(errfile.c_str(), O_WRONLY | O_CREAT | O_TRUNC, 0644);
        if (fd >= 0) { dup2(fd, 2); close(fd); }
        prepare();
        std::vector<std::string> samples;
        long ord = 0;
        if (mode == "filler") {
            for_fillers(maxlen, [&](const std::string & f) {
                if ((ord++ % nshards) != shard) return;
                /* the same filler at all four positions, and for short ones each position alone */
                check(compose(f, f, f, f), {}, "filler '" + f + "' before, between and after", "filler-all");
                if ((int)f.size() <= 5) {
                    check(compose(f, "", "", ""), {}, "filler '" + f + "' before the first object", "filler-before");
                    check(compose("", f, "", ""), {}, "filler '" + f + "' between object 1 and 2", "filler-between12");
                    check(compose("", "", f, ""), {}, "filler '" + f + "' between object 2 and 3 (after padding)", "filler-between23");
                    check(compose("", "", "", f), {}, "filler '" + f + "' after the last object", "filler-after");
                }
                if ((int)f.size() <= splitlen) {
                    Bytes s = compose(f, f, f, f);
                    for (size_t k = 1; k < s.size(); k++)
                        check(s, {k}, "filler '" + f + "' everywhere, stream split into two containers at offset " + std::to_string(k), "split");
                }
                if (samples.size() < 3 && f.size() == (size_t)maxlen && (ord % 7919) == 3) samples.push_back(f);
            });
        } else if (mode == "unknown") {
            std::vector<uint32_t> types = {0, 26, 27, 28, 52, 53, 108, 116, 117, 132, 133, 200, 255, 256, 0xffff, 0x7fffffff, 0x80000000u, 0xffffffffu};
            std::vector<uint32_t> sizes = {0, 1, 15};
            for (uint32_t z = 16; z <= 44; z++) sizes.push_back(z);
            sizes.push_back(48);
            sizes.push_back(4096);
            /* the header-size / header-version fields an unknown object declares: real objects carry 32 (version 1) or 40
             * (version 2); the skip goes by the declared object size alone */
            struct HK { uint16_t hs, hv; };
            std::vector<HK> hks = {{16, 1}, {32, 1}, {40, 2}, {0, 0}, {17, 1}, {0xffff, 0xffff}};
            bool allhk = args.num("allhk", 0) != 0;
            for (uint32_t t : types)
              for (size_t hi = 0; hi < hks.size(); hi++) {
                if (!allhk && hi >= 2 && !(t == 0 || t == 132 || t == 0xffffffffu)) continue;
                for (uint32_t sz : sizes)
                    for (int fake = 0; fake < 2; fake++)
                        for (int where = 0; where < 4; where++) {
                            if ((ord++ % nshards) != shard) continue;
                            Bytes u = unknown_object(t, sz, fake != 0, hks[hi].hs, hks[hi].hv);
                            if (sz < 16) u.resize(16);
                            std::string us(u.begin(), u.end());
                            std::string e;
                            Bytes s = compose(where == 0 ? us : e, where == 1 ? us : e, where == 2 ? us : e, where == 3 ? us : e);
                            std::string lab = "unknown type " + std::to_string(t) + " header " + std::to_string(hks[hi].hs) + "/v" + std::to_string(hks[hi].hv) + " declared size " + std::to_string(sz) + (fake ? " containing the signature bytes" : "") + " at position " + std::to_string(where);
                            check(s, {}, lab, "unknown");
                            if (sz <= 44)
                                for (size_t k = 1; k < s.size(); k += 1) check(s, {k}, lab + ", split at " + std::to_string(k), "unknown-split");
                            /* odd sizes followed by padding up to 4-byte alignment, as writers of padded types do */
                            if (sz % 4) {
                                std::string up = us + std::string(sz % 4, '\0');
                                Bytes s2 = compose(where == 0 ? up : e, where == 1 ? up : e, where == 2 ? up : e, where == 3 ? up : e);
                                check(s2, {}, lab + " + padding", "unknown-padded");
                            }
                        }
              }
            samples.push_back("unknown type 132 declared size 33 containing the signature bytes at position 1");
        } else if (mode == "session") {
            /* complete File sessions (three threads, default schedule) over assembled files */
            std::vector<std::string> F;
            for_fillers(std::min(maxlen, 4), [&](const std::string & f) { F.push_back(f); });
            vs_config_t cfg;
            memset(&cfg, 0, sizeof cfg);
            cfg.fairness_k = 400;
            cfg.horizon = 10000000;
            cfg.change_at = -1;
            std::string path = scratch + "/s.blf";
            for (auto & f : F)
                for (long cont : {7L, 64L, 0x20000L}) {
                    if ((ord++ % nshards) != shard) continue;
                    Bytes s = compose(f, f, f, f);
                    std::string lab = "session: filler '" + f + "' everywhere, containers of " + std::to_string(cont);
                    snprintf(g_cur->label, sizeof g_cur->label, "%s", lab.c_str());
                    blfasm::save(path, blfasm::file_bytes(s, (size_t)cont, 0, false, 3));
                    g_eval++;
                    vs_begin(nullptr, 0, &cfg);
                    std::vector<Bytes> got;
                    {
                        File file;
                        file.open(path.c_str());
                        while (ObjectHeaderBase * o = file.read()) { MemFile m; o->write(m); got.push_back(m.data); delete o; }
                        if (!file.eof()) report("session|eof", "eof() not set after the last object", lab);
                        file.close();
                    }
                    vs_result_t vr;
                    vs_end(&vr);
                    g_distinct_outcomes.insert("session");
                    if (got.size() != 3) report("session|count", std::to_string(got.size()) + " objects delivered instead of 3", lab);
                    else for (int i = 0; i < 3; i++) if (got[i] != KNOWN[i]) report("session|modified", "known object delivered modified", lab);
                }
            /* unknown objects that straddle containers, the next container arriving only on demand (stream buffer of one byte)
             * or ahead of the decoder (default buffer): the skip runs past the data delivered so far */
            for (uint32_t t : {0u, 132u})
                for (uint32_t sz : {16u, 20u, 33u, 48u, 96u, 200u})
                    for (int fake = 0; fake < 2; fake++)
                        for (int where = 0; where < 4; where++)
                            for (long cont : {7L, 16L, 24L, 64L})
                                for (long buf : {1L, 0L}) {
                                    if ((ord++ % nshards) != shard) continue;
                                    Bytes u = unknown_object(t, sz, fake != 0, 32, 1);
                                    std::string us(u.begin(), u.end()), e;
                                    Bytes s = compose(where == 0 ? us : e, where == 1 ? us : e, where == 2 ? us : e, where == 3 ? us : e);
                                    std::string lab = "session: unknown type " + std::to_string(t) + " declared size " + std::to_string(sz) + (fake ? " containing the signature bytes" : "") +
                                                      " at position " + std::to_string(where) + ", containers of " + std::to_string(cont) + (buf ? ", stream buffer 1" : ", default stream buffer");
                                    snprintf(g_cur->label, sizeof g_cur->label, "%s", lab.c_str());
                                    blfasm::save(path, blfasm::file_bytes(s, (size_t)cont, 0, false, 3));
                                    g_eval++;
                                    vs_begin(nullptr, 0, &cfg);
                                    std::vector<Bytes> got;
                                    {
                                        File file;
                                        if (buf) file.m_uncompressedFile.setBufferSize(buf);
                                        file.open(path.c_str());
                                        while (ObjectHeaderBase * o = file.read()) { MemFile m; o->write(m); got.push_back(m.data); delete o; }
                                        file.close();
                                    }
                                    vs_result_t vr;
                                    vs_end(&vr);
                                    g_distinct_outcomes.insert("session-unknown");
                                    if (got.size() != 3) report("session-unknown|count", std::to_string(got.size()) + " objects delivered instead of 3", lab);
                                    else for (int i = 0; i < 3; i++) if (got[i] != KNOWN[i]) report("session-unknown|modified", "known object delivered modified", lab);
                                }
            samples.push_back("session: filler 'LOB' everywhere, containers of 7");
        }
        std::ostringstream o;
        o << "{\"harness\":\"resync\",\"params\":" << args.json() << ",\"evaluations\":" << g_eval << ",\"distinct\":" << (g_nontrivial ? g_nontrivial : (long)g_distinct_outcomes.size()) << ",\"samples\":[";
        for (size_t i = 0; i < samples.size(); i++) o << (i ? "," : "") << "\"" << vx::jesc(samples[i]) << "\"";
        o << "],\"violations\":[";
        for (size_t i = 0; i < g_viol.size(); i++)
            o << (i ? "," : "") << "{\"prop\":\"C09\",\"key\":\"" << vx::jesc(g_viol[i].key) << "\",\"what\":\"" << vx::jesc(g_viol[i].what) << "\",\"spec\":\""
              << vx::jesc(g_viol[i].spec) << "\",\"count\":" << g_keys[g_viol[i].key] << "}";
        o << "],\"wall_s\":" << (vx::now_s() - t0) << "}";
        printf("%s\n", o.str().c_str());
        fflush(stdout);
        _exit(g_viol.empty() ? 0 : 3);
    }
    int status = 0, rc = 0;
    /* a CPU loop without synchronisation points cannot be seen by the scheduler: wall-clock watchdog */
    double deadline = vx::now_s() + args.real("watchdog", 600);
    for (;;) {
        pid_t r = waitpid(pid, &status, WNOHANG);
        if (r == pid) break;
        if (vx::now_s() > deadline) { kill(pid, SIGKILL); waitpid(pid, &status, 0); printf("%s\n", fatal_json(args, "hang", "watchdog expired").c_str()); vx::remove_scratch(scratch); return 1; }
        usleep(5000);
    }
    if (WIFEXITED(status) && (WEXITSTATUS(status) == 0 || WEXITSTATUS(status) == 3)) rc = WEXITSTATUS(status) ? 1 : 0;
    else {
        std::string err = vx::read_tail(errfile, 3000), sum;
        std::istringstream es(err);
        for (std::string line; std::getline(es, line);)
            if (line.find("SUMMARY") != std::string::npos || line.find("runtime error") != std::string::npos || line.find("vs_fatal") != std::string::npos) { sum = line; break; }
        printf("\n%s\n", fatal_json(args, (WIFEXITED(status) && WEXITSTATUS(status) == 10) ? "deadlock" : "crash", sum).c_str());
        rc = 1;
    }
    vx::remove_scratch(scratch);
    return rc;
}
