/* C15: explicit-state search over operation histories of the real UncompressedFile against a
 * reference byte-queue model (flat vector + positions).
 *
 * A state is the shortest history reaching it, replayed on a FRESH real object for every
 * transition (the class holds a mutex and cannot be copied); states are deduplicated by a
 * canonical key over the real object's private fields plus the model state.  Only operations
 * whose wait predicate is true in the model are issued, so nothing blocks.
 *
 * args: alpha=full|S1|S2|S3 depth=<max history length, 0 = to closure> maxbytes=<n> maxcont=<n>
 *       c=<default container size for S1/S3> deadline=<s>
 */
#include <Vector/BLF/LogContainer.h>
#include <Vector/BLF/UncompressedFile.h>

#include <sys/time.h>

#include <cstdio>
#include <cstdlib>
#include <cstring>
#include <deque>
#include <limits>
#include <sstream>
#include <string>
#include <unordered_set>
#include <vector>

#include "explore.h"
#include "seqwatch.h"

using namespace Vector::BLF;

enum Kind : uint8_t { WRITE, WCONT, READ, SEEK, NEXTC, DROP, SETFS, SETC };
struct Op { Kind k; int a; };
static std::vector<Op> ALPHA;

static const long long INF = std::numeric_limits<std::streamsize>::max();

static inline uint8_t pat(long long pos) { return (uint8_t)(pos % 251); }

/* ---------------- reference model ---------------- */
struct Model {
    long long tellg = 0, tellp = 0, fileSize = INF, gcount = 0, low = 0;
    bool fail = false, eof = false;
    unsigned defc = 0x20000;
    int containers = 0;  /* only to bound the search */

    bool enabled(const Op & o, long maxbytes, int maxcont) const {
        switch (o.k) {
        case WRITE: return tellp + o.a <= maxbytes;
        case WCONT: return tellp + o.a <= maxbytes && containers < maxcont && (fileSize == INF);
        case READ:
            if (tellg < low || tellg < 0) return false;                    /* data may be gone: not demanded */
            /* otherwise the call would block; a declared end beyond the data written so far makes the
             * short read cover bytes nobody wrote - unspecified, not demanded */
            return (o.a + tellg <= tellp) || (o.a + tellg > fileSize && fileSize <= tellp);
        case SEEK: {
            long long t = tellg + o.a;
            if (t > fileSize) t = fileSize;
            return t >= low && t >= 0 && t <= tellp + 1 && tellg >= 0;
        }
        case NEXTC: return true;
        case DROP: return true;
        case SETFS: return tellp + o.a >= 0;
        case SETC: return true;
        }
        return false;
    }
    /* returns the observation the real object must show */
    std::string apply(const Op & o, std::string & bytes_out) {
        bytes_out.clear();
        switch (o.k) {
        case WRITE:
            tellp += o.a;
            if (tellp >= fileSize) fileSize = tellp;
            break;
        case WCONT:
            tellp += o.a;
            containers++;
            break;
        case READ: {
            long long n = o.a;
            if (n + tellg > fileSize) {
                n = fileSize - tellg;
                fail = eof = true;
            } else
                fail = eof = false;
            if (n < 0) n = 0;
            long long avail = tellp - tellg;
            if (avail < 0) avail = 0;
            if (n > avail) n = avail;
            for (long long i = 0; i < n; i++) bytes_out.push_back((char)pat(tellg + i));
            gcount = n;
            tellg += n;
            break;
        }
        case SEEK:
            tellg = tellg + o.a;
            if (tellg > fileSize) tellg = fileSize;
            break;
        case NEXTC: break;
        case DROP:
            if (tellg > low) low = tellg < tellp ? tellg : tellp;
            break;
        case SETFS: fileSize = tellp + o.a; break;
        case SETC: defc = (unsigned)o.a; break;
        }
        return obs();
    }
    std::string obs() const {
        char b[160];
        snprintf(b, sizeof b, "g=%lld p=%lld gc=%lld fs=%lld good=%d eof=%d c=%u", fail ? -1 : tellg, fail ? -1 : tellp, gcount,
                 fileSize, !fail && !eof, eof, defc);
        return b;
    }
    std::string key() const {
        char b[96];
        snprintf(b, sizeof b, "|M%lld,%lld,%lld,%d%d,%u", tellg, fileSize == INF ? -1 : fileSize, low, fail, eof, defc);
        return b;
    }
};

/* ---------------- the real object ---------------- */
struct Real {
    UncompressedFile u;
    std::string apply(const Op & o, std::string & bytes_out) {
        bytes_out.clear();
        switch (o.k) {
        case WRITE: {
            char buf[64];
            long long p = (long long)u.m_tellp;
            for (int i = 0; i < o.a; i++) buf[i] = (char)pat(p + i);
            u.write(buf, o.a);
            break;
        }
        case WCONT: {
            std::shared_ptr<LogContainer> lc(new LogContainer);
            long long p = (long long)u.m_tellp;
            lc->uncompressedFile.resize(o.a);
            for (int i = 0; i < o.a; i++) lc->uncompressedFile[i] = pat(p + i);
            lc->uncompressedFileSize = (uint32_t)o.a;
            u.write(lc);
            break;
        }
        case READ: {
            char buf[64];
            memset(buf, 0xEE, sizeof buf);
            u.read(buf, o.a);
            long long gc = u.gcount();
            if (gc >= 0 && gc <= o.a) bytes_out.assign(buf, buf + gc);
            else bytes_out = "<gcount out of range>";
            break;
        }
        case SEEK: u.seekg(o.a, std::ios_base::cur); break;
        case NEXTC: u.nextLogContainer(); break;
        case DROP: u.dropOldData(); break;
        case SETFS: u.setFileSize((std::streamsize)((long long)u.m_tellp + o.a)); break;
        case SETC: u.setDefaultLogContainerSize((uint32_t)o.a); break;
        }
        return obs();
    }
    std::string obs() {
        char b[160];
        snprintf(b, sizeof b, "g=%lld p=%lld gc=%lld fs=%lld good=%d eof=%d c=%u", (long long)u.tellg(), (long long)u.tellp(),
                 (long long)u.gcount(), (long long)u.fileSize(), u.good(), u.eof(), u.defaultLogContainerSize());
        return b;
    }
    std::string key() {
        std::ostringstream o;
        o << "R" << (long long)u.m_tellg << "," << (long long)u.m_tellp << "," << (u.m_fileSize == INF ? -1 : (long long)u.m_fileSize) << ","
          << (int)u.m_rdstate << "," << u.m_defaultLogContainerSize << "," << u.m_abort << ";";
        for (auto & lc : u.m_data) o << (long long)lc->filePosition << ":" << lc->uncompressedFileSize << ":" << lc->uncompressedFile.size() << " ";
        return o.str();
    }
};

static std::string opname(const Op & o) {
    static const char * n[] = {"write", "writeContainer", "read", "seekg", "nextLogContainer", "dropOldData", "setFileSize(tellp+", "setDefaultLogContainerSize"};
    std::ostringstream s;
    s << n[o.k];
    if (o.k == SETFS) s << o.a << ")";
    else if (o.k != NEXTC && o.k != DROP) s << "(" << o.a << ")";
    return s.str();
}

static std::string hist_str(const std::string & h) {
    std::string s;
    for (unsigned char c : h) s += (s.empty() ? "" : " ") + opname(ALPHA[c]);
    return s;
}

static void build_alpha(const std::string & a, int c) {
    ALPHA.clear();
    auto add = [](Kind k, std::initializer_list<int> as) { for (int x : as) ALPHA.push_back({k, x}); };
    if (a == "full") {
        add(WRITE, {1, 3});
        add(WCONT, {0, 2, 3});
        add(READ, {1, 2, 5});
        add(SEEK, {1, -1, 2, -2});
        add(NEXTC, {0});
        add(DROP, {0});
        add(SETFS, {0, 2});
        add(SETC, {1, 3, 64});
    } else if (a == "S1") {          /* chunked producer/consumer, fixed container size */
        add(WRITE, {1, 2, 3, 5});
        add(READ, {1, 2, 4, 7});
        add(DROP, {0});
        add(SETFS, {0});
    } else if (a == "S2") {          /* reader side as File uses it */
        add(WCONT, {1, 2, 3, 4});
        add(READ, {1, 2, 4, 7});
        add(SEEK, {1, -1, 2, -2, 3, -3});
        add(DROP, {0});
        add(SETFS, {0});
    } else if (a == "S4") {          /* the declared end moved into (and behind) the data already written, then grown again */
        add(WRITE, {1, 3});
        add(READ, {1, 2, 5});
        add(SEEK, {1, -1});
        add(DROP, {0});
        add(SETFS, {0, -1, -2, -4, 2});
    } else if (a == "S3") {          /* writer side */
        add(WRITE, {1, 2, 3, 5});
        add(NEXTC, {0});
        add(READ, {1, 3});
        add(DROP, {0});
        add(SETFS, {0});
    }
    (void)c;
}

int main(int argc, char ** argv) {
    vx::Args args(argc, argv);
    std::string alpha = args.str("alpha", "full");
    int depth = (int)args.num("depth", 6);
    long maxbytes = args.num("maxbytes", 8);
    int maxcont = (int)args.num("maxcont", 6);
    int c0 = (int)args.num("c", 0);
    double deadline = args.real("deadline", 1e9);
    std::string replay = args.str("replay", "");
    build_alpha(alpha, c0);
    double t0 = vx::now_s();

    seqwatch::install("seq_stream", args.json(), hist_str);
    auto run_history = [&](const std::string & h, Model & m, Real & r, std::string & why) -> bool {
        seqwatch::arm(h);
        if (c0 > 0) { r.u.setDefaultLogContainerSize((uint32_t)c0); m.defc = (unsigned)c0; }
        std::string bm, br;
        for (unsigned char ci : h) {
            const Op & o = ALPHA[ci];
            std::string em = m.apply(o, bm);
            std::string er = r.apply(o, br);
            if (em != er || bm != br) {
                std::ostringstream s;
                s << "after " << opname(o) << ": model {" << em << "} real {" << er << "}";
                if (bm != br) s << " bytes differ (model " << bm.size() << " bytes, real " << br.size() << ")";
                why = s.str();
                return false;
            }
        }
        return true;
    };

    if (!replay.empty()) {
        std::string h;
        for (const char * p = replay.c_str(); *p;) { h.push_back((char)strtol(p, (char **)&p, 10)); if (*p == ',') p++; }
        Model m; Real r; std::string why;
        bool ok = run_history(h, m, r, why);
        printf("{\"harness\":\"seq_stream\",\"replay\":\"%s\",\"history\":\"%s\",\"ok\":%s,\"detail\":\"%s\"}\n", replay.c_str(),
               vx::jesc(hist_str(h)).c_str(), ok ? "true" : "false", vx::jesc(why).c_str());
        return ok ? 0 : 1;
    }

    std::unordered_set<std::string> seen;
    std::deque<std::string> frontier;
    long states = 0, transitions = 0, maxdepth = 0, dedup_checks = 0;
    bool exhaustive = true, closed = true;
    std::string viol_hist, viol_why;
    std::vector<std::string> samples;
    {
        Model m; Real r;
        if (c0 > 0) { r.u.setDefaultLogContainerSize((uint32_t)c0); m.defc = (unsigned)c0; }
        seen.insert(r.key() + m.key());
        frontier.push_back("");
        states = 1;
    }
    while (!frontier.empty() && viol_why.empty()) {
        if ((transitions & 1023) == 0 && vx::now_s() - t0 > deadline) { exhaustive = false; break; }
        std::string h = std::move(frontier.front());
        frontier.pop_front();
        if ((long)h.size() > maxdepth) maxdepth = (long)h.size();
        /* which operations are enabled in the model state reached by h? */
        Model pm; Real pr; std::string why;
        if (!run_history(h, pm, pr, why)) { viol_hist = h; viol_why = why; break; }
        for (size_t oi = 0; oi < ALPHA.size(); oi++) {
            if (!pm.enabled(ALPHA[oi], maxbytes, maxcont)) continue;
            if (depth > 0 && (int)h.size() >= depth) { closed = false; continue; }
            std::string h2 = h;
            h2.push_back((char)oi);
            Model m; Real r;
            transitions++;
            if (!run_history(h2, m, r, why)) { viol_hist = h2; viol_why = why; break; }
            std::string k = r.key() + m.key();
            if (seen.insert(k).second) {
                states++;
                frontier.push_back(h2);
                if (samples.size() < 3 && (states % 4099) == 7) samples.push_back(hist_str(h2));
            } else if ((transitions % 257) == 0) {
                /* replaying the same history again must give the same canonical key */
                Model m2; Real r2;
                run_history(h2, m2, r2, why);
                dedup_checks++;
                if (r2.key() + m2.key() != k) { viol_hist = h2; viol_why = "replay of the same history reached a different state (uninitialised or unreset field)"; break; }
            }
        }
    }
    if (samples.empty()) samples.push_back(hist_str(std::string(1, (char)0)));
    std::ostringstream o;
    o << "{\"harness\":\"seq_stream\",\"params\":" << args.json() << ",\"states\":" << states << ",\"transitions\":" << transitions
      << ",\"max_depth\":" << maxdepth << ",\"closed\":" << (closed && exhaustive && viol_why.empty() ? "true" : "false")
      << ",\"exhaustive\":" << (exhaustive ? "true" : "false") << ",\"replay_determinism_checks\":" << dedup_checks
      << ",\"alphabet\":" << ALPHA.size() << ",\"samples\":[";
    for (size_t i = 0; i < samples.size(); i++) o << (i ? "," : "") << "\"" << vx::jesc(samples[i]) << "\"";
    o << "],\"violation\":";
    if (viol_why.empty()) o << "null";
    else {
        std::string idx;
        for (unsigned char ch : viol_hist) idx += (idx.empty() ? "" : ",") + std::to_string((int)ch);
        o << "{\"kind\":\"model-mismatch\",\"detail\":\"" << vx::jesc(viol_why) << "\",\"history\":\"" << vx::jesc(hist_str(viol_hist))
          << "\",\"replay\":\"" << idx << "\"}";
    }
    o << ",\"wall_s\":" << (vx::now_s() - t0) << "}";
    printf("%s\n", o.str().c_str());
    return viol_why.empty() ? 0 : 1;
}
