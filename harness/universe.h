/* Object universe U: every creatable class x selector values x payload lengths x fill patterns.
 * Everything is enumerated from explicitly listed finite alphabets; the variable-length members and
 * their paired length fields are discovered from the generated reflection / derived tables. */
#pragma once
#include <map>
#include <memory>
#include <sstream>
#include <string>
#include <vector>

#include "reflect.h"

namespace uni {

using Vector::BLF::ObjectHeaderBase;

struct Spec {
    const refl::ClassInfo * cls = nullptr;
    uint32_t code = 0;                                  /* 0: keep the constructor's */
    std::vector<std::pair<std::string, uint64_t>> sel;  /* selector assignments after the fill */
    std::map<std::string, size_t> shape;                /* variable member path -> element count */
    size_t deflen = 0;
    int pattern = rv::P_UNIQUE;
    bool overlong = false;                              /* a payload longer than its length field can represent */
    bool keepall = false;                               /* union-like variants: the ones the selector does not choose stay populated */
    std::string label() const {
        std::ostringstream o;
        o << cls->name;
        if (code) o << "#" << code;
        if (overlong) o << " OVERLONG";
        if (keepall) o << " ALLVARIANTS";
        static const char * pn[] = {"unique", "00", "ff", "80/7f", "sparse"};
        o << " fill=" << pn[pattern];
        for (auto & s : sel) o << " " << s.first << "=" << s.second;
        for (auto & s : shape) o << " |" << s.first << "|=" << s.second;
        return o.str();
    }
};

/* reset the serial-event variants that the flags do not select (they are not part of the object's value) */
inline void normalise(ObjectHeaderBase & o) {
    if (auto * se = dynamic_cast<Vector::BLF::SerialEvent *>(&o)) {
        bool single = se->flags & Vector::BLF::SerialEvent::SingleByte;
        bool compact = !single && (se->flags & Vector::BLF::SerialEvent::CompactByte);
        bool general = !single && !compact;
        if (!single) se->singleByte = Vector::BLF::SingleByteSerialEvent();
        if (!compact) se->compact = Vector::BLF::CompactSerialEvent();
        if (!general) se->general = Vector::BLF::GeneralSerialEvent();
    }
}

inline ObjectHeaderBase * build(const Spec & s) {
    ObjectHeaderBase * o = s.cls->make();
    rv::FillV f;
    f.pattern = s.pattern;
    f.shape = s.shape;
    f.deflen = s.deflen;
    refl::dispatch(*o, f);
    if (s.code) o->objectType = static_cast<Vector::BLF::ObjectType>(s.code);
    for (auto & kv : s.sel) {
        size_t at = kv.first.find("@natural");
        if (at == std::string::npos) { rv::set_scalar(*o, kv.first, kv.second); continue; }
        /* an offset field relative to where the optional trailer really starts (= the size of the object without it):
         * value 0,1,2 -> natural-1, natural, natural+1 */
        std::string field = kv.first.substr(0, at);
        rv::set_scalar(*o, field, 0);
        o->objectSize = 0;
        uint64_t natural = o->calculateObjectSize();
        rv::set_scalar(*o, field, natural + kv.second - 1);
    }
    if (!s.keepall) normalise(*o);
    return o;
}

typedef std::vector<std::vector<std::pair<std::string, uint64_t>>> SelAlts;

/* hand-written selector table: every field a codec branches on, with every value class it distinguishes */
inline SelAlts selectors(const std::string & cls) {
    if (cls == "LinMessage2") return {{{"apiMajor", 1}}, {{"apiMajor", 2}}, {{"apiMajor", 3}}};
    if (cls == "EthernetStatus") return {{{"apiMajor", 1}}, {{"apiMajor", 2}}};
    if (cls == "LinMessage") return {{{"reservedLinMessage2_present", 0}}, {{"reservedLinMessage2_present", 1}}};
    if (cls == "LinSendError2") return {{{"reservedLinSendError3_present", 0}}, {{"reservedLinSendError3_present", 1}}};
    if (cls == "CanErrorFrame") return {{{"length", 0}}, {{"length", 1}}, {{"length", 4}}, {}};
    if (cls == "SerialEvent") {
        SelAlts a;
        for (uint64_t f : {0, 1, 2, 3, 4, 5, 8, 9, 12}) a.push_back({{"flags", f}});
        return a;
    }
    if (cls == "CanFdMessage64" || cls == "CanFdErrorFrame64") {
        /* extDataOffset selects the optional trailer; objectSize is a size field the caller may have left stale */
        SelAlts a;
        for (uint64_t off : {0ull, 1ull, 64ull, 0xffffffffull})
            for (uint64_t os : {0ull, 48ull, 0xffffffffull}) a.push_back({{"extDataOffset", off}, {"objectSize", os}});
        /* the trailer exactly behind the payload (the natural place), one byte before and one byte too far */
        for (uint64_t d : {0ull, 1ull, 2ull}) a.push_back({{"extDataOffset@natural", d}});
        a.push_back({});
        return a;
    }
    return {{}};
}

/* hand-written like the selector table: the fields that the layout variant a Spec selects must serialise by the format
 * (the layout map only says what the library under test does serialise; a writer and a reader that agree on dropping an
 * optional part would otherwise go unnoticed) */
inline std::vector<std::string> required_fields(const Spec & s, ObjectHeaderBase & o) {
    std::vector<std::string> r;
    std::string cls = s.cls->name;
    auto sel = [&](const std::string & k, uint64_t dflt) { for (auto & kv : s.sel) if (kv.first == k) return kv.second; return dflt; };
    if (cls == "CanFdMessage64" || cls == "CanFdErrorFrame64") {
        bool ext = false;
        for (auto & kv : s.sel) {
            if (kv.first == "extDataOffset@natural") ext = kv.second <= 1;            /* natural-1, natural: fits */
            if (kv.first == "extDataOffset") ext = kv.second == 1 || kv.second == 64;  /* in front of the natural place */
        }
        if (ext) { r.push_back("btrExtArb"); r.push_back("btrExtData"); }
    }
    if (cls == "LinMessage2") {
        uint64_t v = sel("apiMajor", 0);
        if (v >= 2) r.push_back("respBaudrate");
        if (v >= 3) { r.push_back("exactHeaderBaudrate"); r.push_back("earlyStopbitOffset"); r.push_back("earlyStopbitOffsetResponse"); }
    }
    if (cls == "EthernetStatus" && sel("apiMajor", 0) >= 2) { r.push_back("reservedEthernetStatus1"); r.push_back("reservedEthernetStatus2"); }
    if (cls == "LinMessage" && sel("reservedLinMessage2_present", 0) == 1) r.push_back("reservedLinMessage2");
    if (cls == "LinSendError2" && sel("reservedLinSendError3_present", 0) == 1) r.push_back("reservedLinSendError3");
    if (auto * ce = dynamic_cast<Vector::BLF::CanErrorFrame *>(&o)) if (ce->length > 0) r.push_back("reservedCanErrorFrame");
    if (auto * se = dynamic_cast<Vector::BLF::SerialEvent *>(&o)) {
        if (se->flags & Vector::BLF::SerialEvent::SingleByte) r.push_back("singleByte.byte");
        else if (se->flags & Vector::BLF::SerialEvent::CompactByte) { r.push_back("compact.compactLength"); r.push_back("compact.compactData"); }
        else { r.push_back("general.dataLength"); r.push_back("general.timeStampsLength"); }
    }
    return r;
}

struct ClassVars {
    std::vector<std::string> var_paths;
    std::map<std::string, uint64_t> max_len;  /* from the width of the paired length field */
};

inline ClassVars discover(const refl::ClassInfo & c) {
    ClassVars cv;
    std::unique_ptr<ObjectHeaderBase> o(c.make());
    rv::ListV l;
    refl::dispatch(*o, l);
    for (auto & v : l.vars) cv.var_paths.push_back(v.path);
    for (auto & p : refl::resize_pairs()) {
        /* nested members (general.data) are listed under the nested class */
        for (auto & vp : cv.var_paths) {
            std::string leaf = vp.substr(vp.rfind('.') == std::string::npos ? 0 : vp.rfind('.') + 1);
            std::string pre = vp.substr(0, vp.size() - leaf.size());
            bool owner = (std::string(p.cls) == c.name && pre.empty()) || (!pre.empty());
            if (!owner || leaf != p.member) continue;
            for (auto & sc : l.scalars)
                if (sc.path == pre + p.length_field) {
                    uint64_t m = sc.size >= 8 ? ~0ull : ((1ull << (8 * sc.size)) - 1);
                    if (*p.divisor) m /= 8;
                    cv.max_len[vp] = m;
                }
        }
    }
    return cv;
}

struct Options {
    bool overlong = false;   /* also payloads just beyond what the paired length field can represent (framing must still be consistent) */
    bool big = false;        /* include the large one-at-a-time lengths (65535, 65536, 300 KiB) */
    size_t container = 0x20000;
    int max_product_vars = 4;
    bool all_patterns = true;
};

inline std::vector<Spec> universe(const Options & opt, const std::string & only_class = "") {
    std::vector<Spec> out;
    for (auto & c : refl::classes()) {
        if (!only_class.empty() && only_class != c.name) continue;
        if (std::string(c.name) == "LogContainer") continue;  /* the container format itself is C04's business */
        ClassVars cv = discover(c);
        SelAlts alts = selectors(c.name);
        std::vector<uint32_t> codes = c.codes.size() > 1 ? c.codes : std::vector<uint32_t>{0};
        /* length vectors */
        std::vector<std::map<std::string, size_t>> shapes;
        size_t k = cv.var_paths.size();
        if (k == 0) shapes.push_back({});
        else {
            size_t total = 1;
            for (size_t i = 0; i < k; i++) total *= 4;
            if ((int)k <= opt.max_product_vars)
                for (size_t n = 0; n < total; n++) {
                    std::map<std::string, size_t> sh;
                    size_t x = n;
                    for (size_t i = 0; i < k; i++) { sh[cv.var_paths[i]] = x % 4; x /= 4; }
                    shapes.push_back(sh);
                }
            std::vector<size_t> bigs = {4, 5, 7, 8, 17, 255, 256};
            if (opt.big) { bigs.push_back(65535); bigs.push_back(65536); bigs.push_back(5 * opt.container + 3); bigs.push_back(300 * 1024); }
            for (size_t i = 0; i < k; i++)
                for (size_t b : bigs) {
                    auto it = cv.max_len.find(cv.var_paths[i]);
                    if (it != cv.max_len.end() && b > it->second) continue;
                    std::map<std::string, size_t> sh;
                    for (size_t j = 0; j < k; j++) sh[cv.var_paths[j]] = (j == i) ? b : 1;
                    shapes.push_back(sh);
                }
        }
        std::vector<size_t> overlong_from;   /* index of the first over-long shape */
        size_t first_overlong = shapes.size();
        if (opt.overlong)
            for (size_t i = 0; i < k; i++) {
                auto it = cv.max_len.find(cv.var_paths[i]);
                if (it == cv.max_len.end() || it->second >= 0x1000000ull) continue;   /* only 8- and 16-bit length fields */
                for (size_t extra : {1, 2, 3, 4, 4466}) {
                    std::map<std::string, size_t> sh;
                    for (size_t j = 0; j < k; j++) sh[cv.var_paths[j]] = (j == i) ? (size_t)it->second + extra : 1;
                    shapes.push_back(sh);
                }
            }
        for (uint32_t code : codes)
            for (auto & alt : alts)
                for (size_t si = 0; si < shapes.size(); si++)
                    for (int p = 0; p < (opt.all_patterns ? (int)rv::P_COUNT : 1); p++) {
                        /* the non-unique patterns only with the small product shapes */
                        bool small = true;
                        for (auto & kv : shapes[si]) if (kv.second > 3) small = false;
                        if (p != rv::P_UNIQUE && !small) continue;
                        Spec s;
                        s.cls = &c;
                        s.code = code;
                        s.sel = alt;
                        s.shape = shapes[si];
                        s.pattern = p;
                        s.overlong = si >= first_overlong;
                        out.push_back(s);
                        /* an application may have filled every variant and chosen one by the flags: the others must not leak into
                         * the framing (they are not serialised, so the round-trip comparison ignores them) */
                        if (std::string(c.name) == "SerialEvent" && p == rv::P_UNIQUE) { s.keepall = true; out.push_back(s); }
                    }
    }
    return out;
}

}  // namespace uni
