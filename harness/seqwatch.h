/* Watchdog for the sequential explicit-state searches: the reference model only issues operations that cannot block,
 * so an operation that does not return (a spin, a wait that nobody ends) is a violation of the history being replayed,
 * not a problem of the machinery.  The alarm is re-armed every 1024 replays (each takes micro- to milliseconds). */
#pragma once
#include <signal.h>
#include <unistd.h>

#include <string>

#include "explore.h"

namespace seqwatch {
static const std::string * cur = nullptr;
static std::string (*namer)(const std::string &) = nullptr;
static std::string harness_name, params_json;
static unsigned long calls = 0;
static const unsigned LIMIT_S = 30;

static void on_alarm(int) {
    std::string h = cur ? *cur : std::string();
    std::string idx;
    for (unsigned char ch : h) idx += (idx.empty() ? "" : ",") + std::to_string((int)ch);
    std::string out = "\n{\"harness\":\"" + harness_name + "\",\"params\":" + params_json +
                      ",\"states\":0,\"transitions\":0,\"exhaustive\":false,\"samples\":[],\"violation\":{\"kind\":\"no-return\",\"detail\":\"an operation of this "
                      "history does not return within " + std::to_string(LIMIT_S) + " s although the reference model says it cannot block\",\"history\":\"" +
                      vx::jesc(namer ? namer(h) : idx) + "\",\"replay\":\"" + idx + "\"}}\n";
    ssize_t w = write(1, out.data(), out.size());
    (void)w;
    _exit(3);
}

inline void install(const std::string & name, const std::string & params, std::string (*nm)(const std::string &)) {
    harness_name = name;
    params_json = params;
    namer = nm;
    signal(SIGALRM, on_alarm);
}

inline void arm(const std::string & h) {
    cur = &h;
    if ((calls++ & 1023) == 0) alarm(LIMIT_S);
}
}  // namespace seqwatch
