/* Stage-level harness (C06/C07): the bare UncompressedFile between one producer and one consumer thread.
 * Byte-level sizes reach every ordering of (write chunk w, read chunk r, buffer b, container c), which whole-File
 * sessions (objects >= 32 bytes) cannot.
 *
 * args: mode=raw|cont  w=<n> r=<n> b=<n> c=<n> total=<bytes> bound=.. costmode=0|1  drop=0|1
 *   raw : producer calls write(ptr,w) (as the codec thread of a write session), consumer read(r) + dropOldData
 *   cont: producer appends containers of w bytes (as the inflating thread of a read session)
 */
#include <Vector/BLF/LogContainer.h>
#include <Vector/BLF/UncompressedFile.h>

#include "explore.h"

using namespace Vector::BLF;

static std::string MODE;
static long W, R, B, C, TOTAL, DROP;

static inline uint8_t pat(long pos) { return (uint8_t)(pos % 251 + 1); }

static std::string body() {
    std::string obs, err;
    {
        UncompressedFile u;
        u.setBufferSize(B);
        u.setDefaultLogContainerSize((uint32_t)C);
        std::thread prod([&] {
            long pos = 0;
            while (pos < TOTAL) {
                long n = std::min(W, TOTAL - pos);
                if (MODE == "raw") {
                    char buf[64];
                    for (long i = 0; i < n; i++) buf[i] = (char)pat(pos + i);
                    u.write(buf, n);
                } else {
                    std::shared_ptr<LogContainer> lc(new LogContainer);
                    lc->uncompressedFile.resize(n);
                    for (long i = 0; i < n; i++) lc->uncompressedFile[i] = pat(pos + i);
                    lc->uncompressedFileSize = (uint32_t)n;
                    u.write(lc);
                }
                pos += n;
            }
            u.setFileSize(u.tellp());
        });
        long got = 0;
        for (int guard = 0; guard < 1000; guard++) {
            char buf[64];
            memset(buf, 0, sizeof buf);
            u.read(buf, R);
            long gc = (long)u.gcount();
            if (gc < 0 || gc > R) { err = "gcount " + std::to_string(gc) + " outside [0," + std::to_string(R) + "]"; break; }
            for (long i = 0; i < gc; i++)
                if ((uint8_t)buf[i] != pat(got + i)) { err = "byte " + std::to_string(got + i) + " delivered wrong"; break; }
            if (!err.empty()) break;
            got += gc;
            if (!u.good()) {
                if (!u.eof()) err = "stream failed without eof";
                break;
            }
            if (gc != R) { err = "short read without end of stream"; break; }
            if (DROP) u.dropOldData();
        }
        if (err.empty() && got != TOTAL) err = "consumer received " + std::to_string(got) + " of " + std::to_string(TOTAL) + " bytes before end of stream";
        obs = std::to_string(got);
        if (!err.empty()) u.abort();
        prod.join();
    }
    if (!err.empty()) throw vx::Violation("stream-semantics", err);
    return obs;
}

static int run_config(const vx::Args & args) {
    MODE = args.str("mode", "raw");
    W = args.num("w", 1);
    R = args.num("r", 1);
    B = args.num("b", 1);
    C = args.num("c", 1);
    TOTAL = args.num("total", 12);
    DROP = args.num("drop", 1);
    vx::Options opt;
    opt.bound = 2;
    opt.horizon = 100000;
    args.apply(opt);
    return vx::supervise("stream", args, opt, [&](vx::Explorer & ex) {
        ex.body = body;
        ex.opt.single_outcome = true;
        ex.explore();
    }, vx::make_scratch());
}

int main(int argc, char ** argv) {
    int rc = vx::run_batch(argc, argv, run_config);
    vx::remove_scratch(vx::make_scratch());
    return rc;
}
