#!/usr/bin/env python3
"""Build the library under test from /repo's *current working tree* and link harnesses.

No CMake: every src/Vector/BLF/*.cpp is compiled directly, content-addressed
(object file name = hash of preprocessed-independent inputs: source bytes, digest of
all headers, flags, force-included headers), so an unchanged tree costs nothing and
an edited tree is always recompiled.
"""
import fcntl
import glob
import hashlib
import os
import subprocess
import sys
import time
from concurrent.futures import ThreadPoolExecutor

VERIF = os.path.dirname(os.path.dirname(os.path.abspath(__file__)))
REPO = os.environ.get("VERIF_REPO", "/repo")
BUILD = os.path.join(VERIF, "build")
ENGINE = os.path.join(VERIF, "engine")
NCPU = os.cpu_count() or 4


class BuildError(Exception):
    pass


SAN_ASAN = ["-fsanitize=address,undefined", "-fno-sanitize-recover=undefined", "-fno-omit-frame-pointer"]
SAN_TSAN = ["-fsanitize=thread", "-fno-omit-frame-pointer"]

# variant -> (compiler, flags, force-include vsync?, scheduler defines)
VARIANTS = {
    "plain": ("g++", ["-O1", "-g"], False),
    "plain-asan": ("g++", ["-O1", "-g"] + SAN_ASAN, False),
    "sched": ("g++", ["-O1", "-g"], True),
    "sched-asan": ("g++", ["-O1", "-g", "-DVS_POST_RELEASE_POINTS=1"] + SAN_ASAN, True),
    "sched-tsan": ("g++", ["-O1", "-g", "-DVS_WRAP_REAL=1"] + SAN_TSAN, True),
    "plain-init0": ("clang++", ["-O1", "-g", "-ftrivial-auto-var-init=zero",
                                "-enable-trivial-auto-var-init-zero-knowing-it-will-be-removed-from-clang"], False),
    "plain-initpat": ("clang++", ["-O1", "-g", "-ftrivial-auto-var-init=pattern"], False),
}

COMMON = ["-std=c++14", "-fPIC", "-pthread", "-w", "-fno-access-control"]
LIB_COMMON = ["-std=c++14", "-fPIC", "-pthread", "-w"]


def _sha(*parts):
    h = hashlib.sha256()
    for p in parts:
        if isinstance(p, str):
            p = p.encode()
        h.update(p)
        h.update(b"\0")
    return h.hexdigest()[:24]


def _read(p):
    with open(p, "rb") as f:
        return f.read()


def stub_dir():
    d = os.path.join(BUILD, "stub", "Vector", "BLF")
    os.makedirs(d, exist_ok=True)
    for name, text in (("config.h", "#pragma once\n"),
                       ("vector_blf_export.h",
                        "#pragma once\n#define VECTOR_BLF_EXPORT\n#define VECTOR_BLF_NO_EXPORT\n"
                        "#define VECTOR_BLF_DEPRECATED\n#define VECTOR_BLF_DEPRECATED_EXPORT\n")):
        p = os.path.join(d, name)
        if not os.path.exists(p) or open(p).read() != text:
            with open(p + ".tmp", "w") as f:
                f.write(text)
            os.replace(p + ".tmp", p)
    return os.path.join(BUILD, "stub")


def lib_sources():
    src = sorted(glob.glob(os.path.join(REPO, "src/Vector/BLF/*.cpp")))
    if len(src) < 100:
        raise BuildError("library sources not found under %s" % REPO)
    return src


def headers_digest():
    h = hashlib.sha256()
    for p in sorted(glob.glob(os.path.join(REPO, "src/Vector/*.h")) +
                    glob.glob(os.path.join(REPO, "src/Vector/BLF/*.h"))):
        h.update(os.path.basename(p).encode())
        h.update(_read(p))
    return h.hexdigest()


def engine_digest():
    h = hashlib.sha256()
    for p in sorted(glob.glob(os.path.join(ENGINE, "*.h"))):
        h.update(os.path.basename(p).encode())
        h.update(_read(p))
    return h.hexdigest()


def include_flags():
    return ["-I", os.path.join(REPO, "src"), "-I", stub_dir(), "-I", ENGINE]


class _Lock:
    def __enter__(self):
        os.makedirs(BUILD, exist_ok=True)
        self.f = open(os.path.join(BUILD, ".lock"), "w")
        fcntl.flock(self.f, fcntl.LOCK_EX)
        return self

    def __exit__(self, *a):
        fcntl.flock(self.f, fcntl.LOCK_UN)
        self.f.close()


def _compile(job):
    cmd, out = job
    if os.path.exists(out):
        return None
    tmp = out + ".tmp%d" % os.getpid()
    r = subprocess.run(cmd + ["-o", tmp], capture_output=True, text=True)
    if r.returncode != 0:
        try:
            os.unlink(tmp)
        except OSError:
            pass
        return "compile failed: %s\n%s" % (" ".join(cmd), r.stderr[-4000:])
    os.replace(tmp, out)
    return None


def _run_jobs(jobs):
    jobs = [j for j in jobs if not os.path.exists(j[1])]
    if not jobs:
        return
    with ThreadPoolExecutor(NCPU) as ex:
        for err in ex.map(_compile, jobs):
            if err:
                raise BuildError(err)


def variant_flags(variant):
    cc, flags, vsync = VARIANTS[variant]
    fl = list(flags)
    if vsync:
        fl += ["-include", os.path.join(ENGINE, "vsync.h")]
    return cc, fl, vsync


def build_lib(variant):
    """Returns list of object files of the library for this variant."""
    cc, flags, vsync = variant_flags(variant)
    objdir = os.path.join(BUILD, "obj")
    os.makedirs(objdir, exist_ok=True)
    hd = headers_digest()
    ed = engine_digest() if vsync else ""
    jobs, objs = [], []
    for s in lib_sources():
        key = _sha(cc, " ".join(flags), hd, ed, os.path.basename(s), _read(s))
        o = os.path.join(objdir, "L_" + os.path.basename(s)[:-4] + "_" + key + ".o")
        objs.append(o)
        jobs.append(([cc] + LIB_COMMON + flags + include_flags() + ["-c", s], o))
    _run_jobs(jobs)
    return objs


def scheduler_object(variant):
    """Scheduler TU: plain C-like C++, never instrumented by any sanitizer, STL-free."""
    _, flags, _ = variant_flags(variant)
    defs = [f for f in flags if f.startswith("-DVS_")]
    s = os.path.join(ENGINE, "vsched.cpp")
    key = _sha("sched", " ".join(defs), _read(s), engine_digest())
    o = os.path.join(BUILD, "obj", "S_vsched_" + key + ".o")
    os.makedirs(os.path.dirname(o), exist_ok=True)
    _run_jobs([(["g++", "-std=c++14", "-O2", "-g", "-fPIC", "-pthread", "-fno-exceptions", "-fno-rtti",
                 "-I", ENGINE] + defs + ["-c", s], o)])
    return o


def build_harness(name, sources, variant, extra_flags=(), extra_objs=(), gen_deps=()):
    """Compile + link harness `name` from `sources` against the library variant.
    Returns path of the executable (content-addressed, rebuilt only when inputs change)."""
    with _Lock():
        cc, flags, vsync = variant_flags(variant)
        libobjs = build_lib(variant)
        hd = headers_digest()
        ed = engine_digest()
        objdir = os.path.join(BUILD, "obj")
        jobs, objs = [], []
        depdig = _sha(*[_read(p) for p in gen_deps]) if gen_deps else ""
        hdig = _sha(*[_read(p) for p in sorted(glob.glob(os.path.join(VERIF, "harness", "*.h")))])
        for s in sources:
            key = _sha(cc, " ".join(flags), " ".join(extra_flags), hd, ed, hdig, depdig, os.path.basename(s), _read(s))
            o = os.path.join(objdir, "H_" + os.path.basename(s).rsplit(".", 1)[0] + "_" + key + ".o")
            objs.append(o)
            jobs.append(([cc] + COMMON + flags + list(extra_flags) + include_flags() +
                         ["-I", os.path.join(VERIF, "harness"), "-I", os.path.join(BUILD, "gen"), "-c", s], o))
        _run_jobs(jobs)
        allobjs = objs + list(extra_objs) + libobjs
        if vsync:
            allobjs.append(scheduler_object(variant))
        bindir = os.path.join(BUILD, "bin")
        os.makedirs(bindir, exist_ok=True)
        key = _sha(cc, " ".join(flags), *[os.path.basename(o) for o in allobjs])
        exe = os.path.join(bindir, "%s.%s.%s" % (name, variant, key))
        if not os.path.exists(exe):
            san = [f for f in flags if f.startswith("-fsanitize")]
            rsp = exe + ".rsp"
            with open(rsp, "w") as f:
                f.write("\n".join(allobjs))
            r = subprocess.run([cc, "-pthread"] + san + ["@" + rsp, "-lz", "-o", exe + ".tmp"],
                               capture_output=True, text=True)
            os.unlink(rsp)
            if r.returncode != 0:
                raise BuildError("link failed for %s: %s" % (name, r.stderr[-4000:]))
            os.replace(exe + ".tmp", exe)
        _prune()
        return exe


def _prune(limit_gb=6.0):
    """Keep the content-addressed cache bounded (oldest-access first)."""
    files = []
    total = 0
    for d in ("obj", "bin"):
        for p in glob.glob(os.path.join(BUILD, d, "*")):
            try:
                st = os.stat(p)
            except OSError:
                continue
            files.append((st.st_atime, st.st_size, p))
            total += st.st_size
    if total < limit_gb * (1 << 30):
        return
    files.sort()
    now = time.time()
    for at, sz, p in files:
        if total < 0.6 * limit_gb * (1 << 30):
            break
        if now - at < 3600:
            continue
        try:
            os.unlink(p)
            total -= sz
        except OSError:
            pass


if __name__ == "__main__":
    t = time.time()
    for v in sys.argv[1:] or ["plain"]:
        with _Lock():
            print(v, len(build_lib(v)), "objects", "%.1fs" % (time.time() - t))
