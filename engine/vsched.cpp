/* Deterministic scheduler core.
 *
 * Real OS threads, exactly one runnable at a time; the baton is passed with raw futexes.
 * This TU is STL-free and is never compiled with a sanitizer, so that ThreadSanitizer
 * neither sees the hand-offs as happens-before edges nor reports the scheduler's own data.
 */
#include "vsched_api.h"

#include <linux/futex.h>
#include <pthread.h>
#include <stdio.h>
#include <stdlib.h>
#include <string.h>
#include <sys/syscall.h>
#include <unistd.h>

#define MAXT 16
#define MAXOBJ 256

enum { ST_RUN, ST_BLK_MUTEX, ST_CV_WAIT, ST_CV_TIMED, ST_JOIN, ST_FIN };

struct Thr {
    pthread_t pt;
    int sem;
    int st;
    const void *on_cv;
    vs_mutex_t *on_m;
    int join_t;
    void (*fn)(void *);
    void *arg;
    int detached;
    int joined;
    int notified;
    int suppress;
};

static Thr T[MAXT];
static int nT = 1, cur = 0;
static vs_config_t cfg = {400, 2000000, 0, 0, {0}, -1, {0}, 0};
static const vs_dev_t *devs;
static int ndev, nextdev;
static long npoints, nchoices, forced;
static int lastthr = -1;
static long streak;
static uint32_t thash;
static int max_enabled;
static int left_running;
static uint8_t nen[VS_MAXCH], cur_en[VS_MAXCH], ch_kind[VS_MAXCH];
static uint32_t ch_hash[VS_MAXCH];
static const void *objtab[MAXOBJ];
static int nobj;

static void fwait(int *s) {
    for (;;) {
        int e = __atomic_load_n(s, __ATOMIC_ACQUIRE);
        if (e > 0) {
            if (__atomic_compare_exchange_n(s, &e, e - 1, false, __ATOMIC_ACQ_REL, __ATOMIC_ACQUIRE)) return;
            continue;
        }
        syscall(SYS_futex, s, FUTEX_WAIT_PRIVATE, 0, 0, 0, 0);
    }
}
static void fpost(int *s) {
    __atomic_fetch_add(s, 1, __ATOMIC_ACQ_REL);
    syscall(SYS_futex, s, FUTEX_WAKE_PRIVATE, 1, 0, 0, 0);
}

static void fatal(int kind, const char *msg) {
    vs_fatal_hook(kind, msg);
    _exit(99);
}

static inline void mix(uint32_t v) {
    thash ^= v;
    thash *= 16777619u;
}

static int objid(const void *p) {
    if (!p) return 0;
    for (int i = 0; i < nobj; i++)
        if (objtab[i] == p) return i + 1;
    if (nobj < MAXOBJ) {
        objtab[nobj++] = p;
        return nobj;
    }
    return 255;
}

static void trace(int kind, const void *obj) {
    mix((uint32_t)cur);
    mix((uint32_t)kind);
    mix((uint32_t)objid(obj));
}

static bool enabled(int i) {
    Thr &t = T[i];
    switch (t.st) {
    case ST_RUN: return true;
    case ST_BLK_MUTEX: return t.on_m->owner == -1;
    case ST_CV_WAIT: return false;
    case ST_CV_TIMED: return t.on_m->owner == -1;
    case ST_JOIN: return T[t.join_t].st == ST_FIN;
    default: return false;
    }
}

static void switch_to(int n) {
    int me = cur;
    if (n == me) return;
    lastthr = n;
    streak = 0;
    cur = n;
    fpost(&T[n].sem);
    if (T[me].st != ST_FIN) fwait(&T[me].sem);
}

static int g_trace = -1;
static FILE * g_tracef;
static int g_lastkind;
static int take_choice(int k, int kind, int ce) {
    long idx = nchoices++;
    if (idx >= VS_MAXCH) {
        /* very long executions (static-priority runs of big sessions): choices beyond the table are not recorded and cannot
         * be deviated from; that is only an error while deviations are still pending */
        if (nextdev < ndev) fatal(VS_F_INTERNAL, "deviation beyond the choice table");
        mix(0x9e3779b9u);
        return 0;
    }
    nen[idx] = (uint8_t)k;
    cur_en[idx] = (uint8_t)ce;
    ch_kind[idx] = (uint8_t)kind;
    ch_hash[idx] = thash;
    if (k > max_enabled) max_enabled = k;
    int pick = 0;
    if (nextdev < ndev && devs[nextdev].index == idx) {
        pick = devs[nextdev].alt;
        if (pick >= k) fatal(VS_F_REPLAY, "replay divergence: alternative out of range");
        if (devs[nextdev].expect_hash && devs[nextdev].expect_hash != thash)
            fatal(VS_F_REPLAY, "replay divergence: trace hash differs at deviation point");
        nextdev++;
    } else if (nextdev < ndev && devs[nextdev].index < idx) {
        fatal(VS_F_REPLAY, "replay divergence: deviation index skipped");
    }
    mix(0x9e3779b9u + (uint32_t)pick);
    return pick;
}

static const int *cur_prio() {
    if (cfg.change_at >= 0 && npoints >= cfg.change_at) return cfg.prio2;
    return cfg.prio;
}

static void choose() {
    int en[MAXT], k = 0;
    bool ce = enabled(cur);
    if (cfg.policy == 0) {
        if (ce) en[k++] = cur;
        for (int d = 1; d < nT; d++) {
            int i = (cur + d) % nT;
            if (enabled(i)) en[k++] = i;
        }
    } else {
        const int *pr = cur_prio();
        for (int i = 0; i < nT; i++)
            if (enabled(i)) en[k++] = i;
        for (int a = 1; a < k; a++) { /* insertion sort: priority desc, id asc */
            int v = en[a], b = a - 1;
            while (b >= 0 && pr[en[b]] < pr[v]) {
                en[b + 1] = en[b];
                b--;
            }
            en[b + 1] = v;
        }
    }
    if (k == 0) {
        static char msg[512];
        int o = snprintf(msg, sizeof msg, "no enabled thread after %ld points:", npoints);
        for (int i = 0; i < nT && o < (int)sizeof msg - 40; i++) {
            static const char *nm[] = {"run", "mutex", "cv", "cv-timed", "join", "fin"};
            o += snprintf(msg + o, sizeof msg - o, " t%d=%s", i, nm[T[i].st]);
            if (T[i].st == ST_CV_WAIT || T[i].st == ST_CV_TIMED) o += snprintf(msg + o, sizeof msg - o, "#%d", objid(T[i].on_cv));
            if (T[i].st == ST_BLK_MUTEX) o += snprintf(msg + o, sizeof msg - o, "#%d", objid(T[i].on_m));
            if (T[i].st == ST_JOIN) o += snprintf(msg + o, sizeof msg - o, "(t%d)", T[i].join_t);
        }
        fatal(VS_F_DEADLOCK, msg);
    }
    int pick = 0;
    if (k > 1) pick = take_choice(k, 0, ce ? 1 : 0);
    if (g_trace > 0 && k > 1) {
        fprintf(g_tracef, "choice %ld: t%d kind %d enabled:", nchoices - 1, cur, g_lastkind);
        for (int i = 0; i < k; i++) fprintf(g_tracef, " t%d", en[i]);
        fprintf(g_tracef, " -> t%d\n", en[pick]);
        fflush(g_tracef);
    }
    switch_to(en[pick]);
}

static void count_point(int kind, const void *obj) {
    npoints++;
    if (npoints > cfg.horizon) {
        static char msg[256];
        snprintf(msg, sizeof msg, "horizon of %ld scheduling points exceeded (thread t%d, kind %d, %ld forced yields)",
                 cfg.horizon, cur, kind, forced);
        fatal(VS_F_LIVELOCK, msg);
    }
    trace(kind, obj);
    g_lastkind = kind;
    if (cfg.on_point) {
        /* the hook may read substituted atomics: no scheduling points inside it */
        T[cur].suppress++;
        cfg.on_point(kind, obj);
        T[cur].suppress--;
    }
}

extern "C" void vs_point(int kind, const void *obj) {
    if (T[cur].suppress) return;
    if ((kind == VS_K_UNLOCKED || kind == VS_K_CVWOKE || kind == VS_K_NOTIFY) && !cfg.post_release) {
        if (kind == VS_K_NOTIFY) trace(kind, obj);
        return;
    }
    count_point(kind, obj);
    if (cur == lastthr)
        streak++;
    else {
        lastthr = cur;
        streak = 0;
    }
    if (kind == VS_K_YIELD || (cfg.fairness_k > 0 && streak > cfg.fairness_k)) {
        /* fairness: forced yield to the next enabled other thread; not a choice */
        for (int d = 1; d < nT; d++) {
            int i = (cur + d) % nT;
            if (enabled(i)) {
                forced++;
                mix(0xfa1u);
                switch_to(i);
                return;
            }
        }
        streak = 0;
    }
    choose();
}

extern "C" void vs_mutex_lock(vs_mutex_t *m, int recursive) {
    if (recursive && m->owner == cur) {
        m->count++;
        return;
    }
    vs_point(VS_K_LOCK, m);
    while (m->owner != -1) {
        T[cur].st = ST_BLK_MUTEX;
        T[cur].on_m = m;
        choose();
        T[cur].st = ST_RUN;
    }
    m->owner = cur;
    m->count = 1;
}

extern "C" int vs_mutex_trylock(vs_mutex_t *m, int recursive) {
    if (recursive && m->owner == cur) {
        m->count++;
        return 1;
    }
    vs_point(VS_K_TRYLOCK, m);
    if (m->owner != -1) return 0;
    m->owner = cur;
    m->count = 1;
    return 1;
}

extern "C" void vs_mutex_unlock(vs_mutex_t *m) {
    if (m->owner != cur) fatal(VS_F_MISUSE, "unlock of a mutex the thread does not own");
    if (m->count > 1) {
        m->count--;
        return;
    }
    m->owner = -1;
    m->count = 0;
    vs_point(VS_K_UNLOCKED, m);
}

extern "C" int vs_cv_wait(const void *cv, vs_mutex_t *m, int timed) {
    if (m->owner != cur) fatal(VS_F_MISUSE, "condition wait without owning the mutex");
    int saved = m->count;
    /* a scheduling point before the thread releases the mutex and blocks: a notifier that does not take the mutex can run
     * between the caller's predicate evaluation and the block (lost wake-up window); with a mutex-protected notifier the
     * point is harmless, the notifier just blocks on the mutex */
    vs_point(VS_K_CVWAIT, cv);
    m->owner = -1;
    m->count = 0;
    Thr &me = T[cur];
    me.st = timed ? ST_CV_TIMED : ST_CV_WAIT;
    me.on_cv = cv;
    me.on_m = m;
    me.notified = 0;
    if (timed && cfg.fairness_k > 0 && streak > cfg.fairness_k) {
        /* a polling loop on a timed wait: let somebody else run if possible */
        for (int d = 1; d < nT; d++) {
            int i = (cur + d) % nT;
            if (enabled(i)) { forced++; mix(0xfa2u); switch_to(i); goto resumed; }
        }
    }
    choose();
resumed:
    while (m->owner != -1) { /* cannot happen by construction; be safe */
        me.st = ST_BLK_MUTEX;
        choose();
    }
    int r = timed ? me.notified : 1;
    me.st = ST_RUN;
    m->owner = cur;
    m->count = saved;
    if (timed) mix(0x71u + (uint32_t)r);
    return r;
}

extern "C" void vs_cv_notify_all(const void *cv) {
    vs_point(VS_K_NOTIFY, cv);
    for (int i = 0; i < nT; i++)
        if ((T[i].st == ST_CV_WAIT || T[i].st == ST_CV_TIMED) && T[i].on_cv == cv) {
            T[i].st = ST_BLK_MUTEX;
            T[i].notified = 1;
        }
}

extern "C" void vs_cv_notify_one(const void *cv) {
    vs_point(VS_K_NOTIFY, cv);
    int w[MAXT], k = 0;
    for (int i = 0; i < nT; i++)
        if ((T[i].st == ST_CV_WAIT || T[i].st == ST_CV_TIMED) && T[i].on_cv == cv) w[k++] = i;
    if (k == 0) return;
    int pick = 0;
    if (k > 1) pick = take_choice(k, 1, 0);
    T[w[pick]].st = ST_BLK_MUTEX;
    T[w[pick]].notified = 1;
}

static void *tramp(void *p) {
    Thr *t = (Thr *)p;
    fwait(&t->sem);
    t->fn(t->arg);
    trace(VS_K_EXIT, 0);
    t->st = ST_FIN;
    choose();
    return 0;
}

extern "C" int vs_thread_create(void (*fn)(void *), void *arg) {
    vs_point(VS_K_CREATE, 0);
    if (nT >= MAXT) fatal(VS_F_INTERNAL, "too many threads");
    int id = nT;
    Thr &t = T[id];
    memset(&t, 0, sizeof t);
    t.st = ST_RUN;
    t.fn = fn;
    t.arg = arg;
    nT++;
    if (pthread_create(&t.pt, 0, tramp, &t) != 0) fatal(VS_F_INTERNAL, "pthread_create failed");
    return id;
}

extern "C" void vs_thread_join(int id) {
    vs_point(VS_K_JOIN, 0);
    if (id == cur || id < 0 || id >= nT || T[id].joined || T[id].detached)
        fatal(VS_F_MISUSE, "join of self / invalid / already joined thread");
    while (T[id].st != ST_FIN) {
        T[cur].st = ST_JOIN;
        T[cur].join_t = id;
        choose();
        T[cur].st = ST_RUN;
    }
    pthread_join(T[id].pt, 0);
    T[id].joined = 1;
}

extern "C" void vs_thread_detach(int id) {
    if (id < 0 || id >= nT || T[id].joined || T[id].detached) fatal(VS_F_MISUSE, "detach of invalid thread");
    T[id].detached = 1;
    pthread_detach(T[id].pt);
}

extern "C" int vs_self(void) { return cur; }
extern "C" int vs_nthreads(void) { return nT; }
extern "C" long vs_now(void) { return npoints; }
extern "C" void vs_suppress(int on) { T[cur].suppress += on ? 1 : -1; }

extern "C" void vs_begin(const vs_dev_t *d, int n, const vs_config_t *c) {
    if (c) cfg = *c;
    if (g_trace < 0) {
        const char * tf = getenv("VS_TRACE");   /* debugging aid: file that receives one line per choice point */
        g_tracef = tf ? fopen(tf, "a") : 0;
        g_trace = g_tracef ? 1 : 0;
    }
    if (g_trace > 0) { fprintf(g_tracef, "--- execution\n"); }
    devs = d;
    ndev = n;
    nextdev = 0;
    nT = 1;
    cur = 0;
    memset(&T[0], 0, sizeof T[0]);
    T[0].st = ST_RUN;
    npoints = nchoices = forced = 0;
    lastthr = -1;
    streak = 0;
    thash = 2166136261u;
    max_enabled = 1;
    left_running = 0;
    nobj = 0;
}

extern "C" void vs_end(vs_result_t *out) {
    if (cur != 0) fatal(VS_F_INTERNAL, "vs_end not on the main thread");
    /* threads still alive (detached ones): let them finish; count them */
    for (int i = 1; i < nT; i++) {
        if (T[i].st != ST_FIN) {
            left_running++;
            while (T[i].st != ST_FIN) {
                T[0].st = ST_JOIN;
                T[0].join_t = i;
                choose();
                T[0].st = ST_RUN;
            }
        }
        if (!T[i].joined && !T[i].detached) {
            /* a joinable std::thread was leaked without join (its destructor did not run) */
            left_running++;
            pthread_join(T[i].pt, 0);
            T[i].joined = 1;
        }
    }
    if (nextdev < ndev) fatal(VS_F_REPLAY, "replay divergence: execution ended before all deviations were applied");
    if (out) {
        out->npoints = npoints;
        out->nchoices = nchoices < VS_MAXCH ? nchoices : VS_MAXCH;
        out->forced_yields = forced;
        out->trace_hash = thash;
        out->nthreads = nT;
        out->left_running = left_running;
        out->max_enabled = max_enabled;
        out->nen = nen;
        out->cur_en = cur_en;
        out->ch_hash = ch_hash;
        out->ch_kind = ch_kind;
    }
    devs = 0;
    ndev = nextdev = 0;
    cfg.on_point = 0;
}
