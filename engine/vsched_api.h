/* C API between the substituted synchronisation types (vsync.h), the scheduler core
 * (vsched.cpp, STL-free, never sanitizer-instrumented) and the explorer (explore.h). */
#pragma once
#include <stdint.h>

#ifdef __cplusplus
extern "C" {
#endif

typedef struct vs_mutex_s {
    int owner;  /* thread id or -1 */
    int count;  /* recursion count (recursive_mutex only) */
} vs_mutex_t;

enum {
    VS_K_LOCK = 1,      /* before mutex lock */
    VS_K_UNLOCKED = 2,  /* post-release point: right after unlock (optional class) */
    VS_K_CVWAIT = 3,    /* condition wait (release + block) */
    VS_K_CVWOKE = 4,    /* post-release class: after a wait returned (mutex re-acquired) */
    VS_K_NOTIFY = 5,    /* notify (not a scheduling point; traced only) */
    VS_K_CREATE = 6,
    VS_K_JOIN = 7,
    VS_K_ALOAD = 8,
    VS_K_ASTORE = 9,
    VS_K_ARMW = 10,
    VS_K_EXIT = 11,
    VS_K_YIELD = 12,
    VS_K_TRYLOCK = 13,
    VS_K_USER = 14      /* harness-inserted point */
};

enum {  /* fatal kinds reported through vs_fatal_hook */
    VS_F_DEADLOCK = 1,
    VS_F_LIVELOCK = 2,     /* horizon exceeded with fairness on */
    VS_F_REPLAY = 3,       /* replay divergence: infrastructure error, never a violation */
    VS_F_THREAD_LEFT = 4,  /* execution ended with an unfinished thread */
    VS_F_INTERNAL = 5,
    VS_F_MISUSE = 6        /* unlock of a mutex not owned, join of self, ... (UB in the real program) */
};

typedef struct vs_dev_s {
    int32_t index;  /* choice-point index */
    int32_t alt;    /* alternative taken there (>=1) */
    uint32_t expect_hash; /* trace hash expected when reaching this choice (0 = don't check) */
} vs_dev_t;

typedef struct vs_config_s {
    int fairness_k;       /* forced yield after this many consecutive points of one thread (0 = off) */
    long horizon;         /* max scheduling points per execution */
    int post_release;     /* 1: VS_K_UNLOCKED / VS_K_CVWOKE are scheduling points */
    int policy;           /* 0: continue running thread, else round-robin; 1: static priorities */
    int prio[16];         /* policy 1: priority of thread id i (higher runs first) */
    long change_at;       /* policy 1: at this point index switch to prio2 (-1: never) */
    int prio2[16];
    void (*on_point)(int kind, const void *obj); /* invariant hook, called at every point (may be 0) */
} vs_config_t;

#define VS_MAXCH (1 << 18)

typedef struct vs_result_s {
    long npoints;
    long nchoices;
    long forced_yields;
    uint32_t trace_hash;
    int nthreads;
    int left_running;        /* threads that were still unfinished / unjoined when the body returned */
    int max_enabled;
    const uint8_t *nen;      /* per choice: number of alternatives */
    const uint8_t *cur_en;   /* per choice: 1 if the running thread was among them (deviation = preemption) */
    const uint32_t *ch_hash; /* per choice: trace hash on arrival */
    const uint8_t *ch_kind;  /* per choice: 0 thread choice, 1 notify_one choice, 2 timed-wait */
} vs_result_t;

void vs_begin(const vs_dev_t *devs, int ndev, const vs_config_t *cfg);
void vs_end(vs_result_t *out);

void vs_point(int kind, const void *obj);
void vs_mutex_lock(vs_mutex_t *m, int recursive);
int vs_mutex_trylock(vs_mutex_t *m, int recursive);
void vs_mutex_unlock(vs_mutex_t *m);
/* caller holds m (logically); returns 1 if notified, 0 if timed out (timed!=0 only) */
int vs_cv_wait(const void *cv, vs_mutex_t *m, int timed);
void vs_cv_notify_all(const void *cv);
void vs_cv_notify_one(const void *cv);
int vs_thread_create(void (*fn)(void *), void *arg);
void vs_thread_join(int id);
void vs_thread_detach(int id);
int vs_self(void);
int vs_nthreads(void);
void vs_suppress(int on); /* suppress scheduling points in the calling thread (nesting counter) */
long vs_now(void);        /* logical clock = point counter (for timed waits) */

/* Provided by the explorer / harness: must not return. */
void vs_fatal_hook(int kind, const char *msg);

#ifdef __cplusplus
}
#endif
