"""Common driver pieces: parallel harness jobs, evidence files, replay files, known findings."""
import json
import os
import subprocess
import sys
import tempfile
import time
from concurrent.futures import ThreadPoolExecutor

sys.path.insert(0, os.path.dirname(os.path.abspath(__file__)))
import build  # noqa: E402

VERIF = build.VERIF
NCPU = build.NCPU
EVIDENCE_DIR = os.environ.get("VERIF_EVIDENCE_DIR") or os.path.join(VERIF, "evidence")
REPLAY_DIR = os.environ.get("VERIF_REPLAY_DIR") or os.path.join(VERIF, "replay")
KNOWN_FILE = os.path.join(VERIF, "known_findings.json")

SAN_ENV = {
    "TSAN_OPTIONS": "halt_on_error=1 exitcode=66 report_signal_unsafe=0 history_size=4",
    "ASAN_OPTIONS": "detect_leaks=0 exitcode=67 allocator_may_return_null=1 detect_stack_use_after_return=0",
    "UBSAN_OPTIONS": "print_stacktrace=1 halt_on_error=1",
}


class Infra(Exception):
    """Infrastructure trouble: exit 2, never a VIOLATION line."""


def tier_and_seed(argv):
    tier = os.environ.get("VERIF_TIER", "quick")
    replay = None
    i = 0
    while i < len(argv):
        if argv[i] == "--tier":
            tier = argv[i + 1]
            i += 1
        elif argv[i] == "--replay":
            replay = argv[i + 1]
            i += 1
        i += 1
    seed = int(os.environ.get("VERIF_SEED", "0") or 0)
    return tier, seed, replay


def harness(name, variant, sources=None, extra_flags=(), gen_deps=()):
    sources = sources or [os.path.join(VERIF, "harness", name + ".cpp")]
    try:
        return build.build_harness(name, sources, variant, extra_flags=extra_flags, gen_deps=gen_deps)
    except build.BuildError as e:
        raise Infra("build failed: %s" % e)


def _run_chunk(job):
    exe, common, lines, until, env = job
    with tempfile.NamedTemporaryFile("w", suffix=".batch", delete=False) as f:
        f.write("\n".join(lines) + "\n")
        bf = f.name
    try:
        e = dict(os.environ)
        e.update(SAN_ENV)
        if env:
            e.update(env)
        cmd = [exe] + list(common) + ["batch=" + bf, "until=%f" % until]
        r = subprocess.run(cmd, capture_output=True, text=True, env=e)
        outs = []
        for l in r.stdout.splitlines():
            l = l.strip()
            if not l.startswith("{"):
                continue
            try:
                outs.append(json.loads(l))
            except ValueError:
                outs.append({"infra": "unparsable harness output", "raw": l[:500]})
        if len(outs) < len(lines):
            outs.append({"infra": "harness produced %d results for %d configurations (rc %d)" % (len(outs), len(lines), r.returncode),
                         "stderr": r.stderr[-2000:]})
        for o in outs:
            o["_exe"] = exe
            o["_common"] = list(common)
        return outs
    finally:
        os.unlink(bf)


def run_configs(exe, configs, common=(), deadline_s=100.0, chunk=None, env=None, order_seed=0, nproc=NCPU):
    """configs: list of 'k=v k=v' strings.  Returns list of result dicts (one per config,
    skipped ones carry skipped=True).  Work is dealt out dynamically in small chunks."""
    t0 = time.time()
    until = t0 + deadline_s
    configs = list(configs)
    if order_seed:
        import random
        random.Random(order_seed).shuffle(configs)   # permutes enumeration order only
    if not configs:
        return []
    if chunk is None:
        chunk = max(1, min(64, len(configs) // (nproc * 4) or 1))
    jobs = [(exe, common, configs[i:i + chunk], until, env) for i in range(0, len(configs), chunk)]
    results = []
    with ThreadPoolExecutor(nproc) as ex:
        for outs in ex.map(_run_chunk, jobs):
            results.extend(outs)
    return results


def summarise(results):
    """Aggregate harness JSON lines."""
    agg = {"configs": 0, "skipped": 0, "executions": 0, "points": 0, "choices": 0, "distinct_traces": 0,
           "max_outcomes_per_config": 0, "configs_incomplete": 0, "min_bound_completed": None,
           "violations": [], "infra": [], "samples": [], "bounds_completed": {}}
    for r in results:
        if r.get("infra"):
            agg["infra"].append(r)
            continue
        if r.get("skipped"):
            agg["skipped"] += 1
            continue
        agg["configs"] += 1
        agg["executions"] += r.get("executions", 0)
        agg["points"] += r.get("points", 0)
        agg["choices"] += r.get("choices", 0)
        agg["distinct_traces"] += r.get("distinct_traces", 0)
        agg["max_outcomes_per_config"] = max(agg["max_outcomes_per_config"], r.get("distinct_outcomes", 0))
        if r.get("violation"):
            if r["violation"].get("kind") in ("internal", "replay-divergence"):
                agg["infra"].append({"infra": "explorer: %s: %s" % (r["violation"].get("kind"), r["violation"].get("detail")), "params": r.get("params")})
            else:
                agg["violations"].append(r)
            continue
        if not r.get("exhaustive", True):
            agg["configs_incomplete"] += 1
        bc = r.get("bound_completed")
        if bc is not None:
            agg["bounds_completed"][str(bc)] = agg["bounds_completed"].get(str(bc), 0) + 1
            if agg["min_bound_completed"] is None or bc < agg["min_bound_completed"]:
                agg["min_bound_completed"] = bc
        if len(agg["samples"]) < 6 and r.get("samples"):
            agg["samples"].append({"params": r.get("params"), "executions": r.get("executions"),
                                   "outcomes": r.get("outcomes", [])[:3], "sample_schedules": r["samples"][:2]})
    return agg


# ---------------------------------------------------------------- known findings / reporting

def load_known(prop):
    if not os.path.exists(KNOWN_FILE):
        return []
    with open(KNOWN_FILE) as f:
        d = json.load(f)
    return [k for k in d.get("known", []) if k.get("property") == prop]


def match_known(known, key):
    for k in known:
        if k.get("key") == key:
            return k
    return None


def write_replay(prop, n, payload):
    d = os.path.join(REPLAY_DIR, prop)
    os.makedirs(d, exist_ok=True)
    p = os.path.join(d, "violation_%d.json" % n)
    with open(p, "w") as f:
        json.dump(payload, f, indent=1)
    return p


def write_evidence(prop, tier, seed, level, coverage, wall_s, violations, assumptions):
    os.makedirs(EVIDENCE_DIR, exist_ok=True)
    ev = {"property_id": prop, "tier": tier, "seed": seed, "level": level, "coverage": coverage,
          "assumptions": assumptions, "wall_s": round(wall_s, 3), "violations": violations}
    p = os.path.join(EVIDENCE_DIR, prop + ".json")
    with open(p + ".tmp", "w") as f:
        json.dump(ev, f, indent=1)
    os.replace(p + ".tmp", p)
    return p


def finish(prop, tier, seed, level, coverage, t0, violations, assumptions, infra=None):
    """violations: list of dicts {key, what, replay(payload dict)}.  Prints the required lines,
    writes evidence, returns the exit code."""
    known = load_known(prop)
    new = []
    seen_known = {}
    for v in violations:
        k = match_known(known, v["key"])
        if k:
            seen_known[v["key"]] = k
        else:
            new.append(v)
    for key, k in seen_known.items():
        print("KNOWN-FINDING: property=%s %s" % (prop, k.get("what", key)))
    n = 0
    for v in new:
        n += 1
        path = write_replay(prop, n, v["replay"])
        print("VIOLATION property=%s replay=%s" % (prop, path))
        print("  what: %s" % v["what"][:1500])
        print("  key:  %s" % v["key"])
        if n >= 10:
            break
    coverage = dict(coverage)
    coverage["known_findings_observed"] = sorted(seen_known)
    write_evidence(prop, tier, seed, level, coverage, time.time() - t0, len(new), assumptions)
    if infra:
        for i in infra[:5]:
            print("INFRASTRUCTURE: %s" % json.dumps(i)[:1500], file=sys.stderr)
        if not new:
            return 2
    return 1 if new else 0


def sched_violation(prop, r, variant, hname):
    """Turn a harness result carrying a violation into the driver's violation record."""
    v = r["violation"]
    params = r.get("params", {})
    pstr = " ".join("%s=%s" % (k, params[k]) for k in sorted(params) if k not in ("bound", "shard", "replay"))
    key = "%s|%s|%s|%s" % (hname, variant, pstr, v.get("kind"))
    what = "%s in %s [%s] schedule=%s: %s" % (v.get("kind"), hname, pstr, json.dumps(v.get("schedule")), v.get("detail", ""))
    if v.get("static"):
        what += " static=" + json.dumps(v["static"])
    if v.get("stderr"):
        lines = [l for l in v["stderr"].splitlines() if "SUMMARY" in l or "ERROR" in l or "WARNING" in l or "runtime error" in l]
        what += " | " + " ; ".join(lines[:3])
    return {"key": key, "what": what,
            "replay": {"property": prop, "harness": hname, "variant": variant, "params": params,
                       "schedule": v.get("schedule"), "static": v.get("static"), "kind": v.get("kind"),
                       "detail": v.get("detail"), "stderr": v.get("stderr", "")[-6000:]}}


def replay_sched(path):
    """Re-run one recorded schedule without the explorer's search."""
    with open(path) as f:
        rp = json.load(f)
    exe = harness(rp["harness"], rp["variant"])
    params = dict(rp["params"])
    for k in ("bound", "shard", "static"):
        params.pop(k, None)
    sch = rp.get("schedule") or []
    args = ["%s=%s" % kv for kv in params.items()]
    args.append("replay=" + (",".join("%d:%d" % (a, b) for a, b in sch) if sch else "-"))
    st = rp.get("static")
    if st and st.get("prio"):
        args += ["prio=" + ",".join(map(str, st["prio"])), "prio2=" + ",".join(map(str, st["prio2"])),
                 "changeat=%d" % st["change_at"]]
    e = dict(os.environ)
    e.update(SAN_ENV)
    r = subprocess.run([exe] + args, capture_output=True, text=True, env=e)
    print(r.stdout.strip()[:6000])
    return r.returncode
