#!/usr/bin/env python3
"""Independent, stdlib-only (struct + zlib) decoder of the BLF container format.

Written from the format description, shares no code with the library under test:
  144-byte statistics header "LOGG"; then LOBJ objects of type 10 (log containers): 16-byte base header
  (signature, headerSize=16, headerVersion=1, objectSize, objectType), 16 bytes container header
  (compressionMethod u16, 6 reserved bytes, uncompressedFileSize u32, 4 reserved bytes), payload, then
  objectSize % 4 padding bytes.  Method 0 = stored, 2 = zlib.
"""
import glob
import os
import struct
import zlib

LOBJ = b"LOBJ"


class FormatError(Exception):
    pass


def parse_header(b):
    if len(b) < 144:
        raise FormatError("file shorter than the 144-byte header (%d)" % len(b))
    (sig, size, api, appid, level, major, minor, fsz, usz, cnt, build) = struct.unpack_from("<4sIIBBBBQQII", b, 0)
    start = struct.unpack_from("<8H", b, 40)
    last = struct.unpack_from("<8H", b, 56)
    rpo = struct.unpack_from("<Q", b, 72)[0]
    reserved = struct.unpack_from("<16I", b, 80)
    if sig != b"LOGG":
        raise FormatError("bad file signature %r" % sig)
    return {"statisticsSize": size, "apiNumber": api, "applicationId": appid, "compressionLevel": level,
            "applicationMajor": major, "applicationMinor": minor, "fileSize": fsz, "uncompressedFileSize": usz,
            "objectCount": cnt, "applicationBuild": build, "measurementStartTime": start, "lastObjectTime": last,
            "restorePointsOffset": rpo, "reserved": reserved}


def zlib_level_class(payload):
    """FLEVEL bits of the zlib header: 0 fastest (level 1), 1 fast (2-5), 2 default (6), 3 maximum (7-9)"""
    if len(payload) < 2:
        return None
    cmf, flg = payload[0], payload[1]
    if (cmf & 0x0f) != 8 or ((cmf << 8) | flg) % 31 != 0:
        return None
    return flg >> 6


def expected_level_class(level):
    if level == 1:
        return 0
    if 2 <= level <= 5:
        return 1
    if level == 6:
        return 2
    return 3


def containers(b, strict=True, start=None):
    """Yields dicts for every completely stored container; raises FormatError in strict mode on anything malformed.
    In tolerant mode (strict=False) stops silently at the first incomplete / malformed container."""
    pos = 144 if start is None else start
    out = []
    n = len(b)
    while pos < n:
        def bad(msg):
            if strict:
                raise FormatError("container %d at offset %d: %s" % (len(out), pos, msg))
            return None
        if pos + 32 > n:
            bad("truncated container header")
            break
        sig, hsz, hver, osz, typ = struct.unpack_from("<4sHHII", b, pos)
        method, r1, r2, usz, r3 = struct.unpack_from("<HHIII", b, pos + 16)
        if sig != LOBJ:
            bad("no object signature")
            break
        if hsz != 16 or hver != 1:
            bad("header size %d / version %d, expected 16 / 1" % (hsz, hver))
            break
        if typ != 10:
            bad("object type %d is not a log container" % typ)
            break
        if osz < 32:
            bad("object size %d smaller than the container header" % osz)
            break
        if pos + osz > n:
            bad("payload truncated (object size %d, %d bytes left)" % (osz, n - pos))
            break
        payload = b[pos + 32:pos + osz]
        if method == 0:
            data = payload
            unused = b""
        elif method == 2:
            try:
                d = zlib.decompressobj()
                data = d.decompress(payload)
                unused = d.unused_data
                if not d.eof:
                    bad("zlib stream incomplete")
                    break
            except zlib.error as e:
                bad("zlib error: %s" % e)
                break
        else:
            bad("unknown compression method %d" % method)
            break
        if len(data) != usz:
            bad("inflated size %d != declared uncompressed size %d" % (len(data), usz))
            break
        if unused:
            bad("%d bytes after the end of the zlib stream inside the container" % len(unused))
            break
        pad = osz % 4
        padbytes = b[pos + osz:pos + osz + pad]
        complete = pos + osz + pad <= n
        out.append({"pos": pos, "objectSize": osz, "method": method, "uncompressedSize": usz, "payload": payload,
                    "data": data, "pad": pad, "padbytes": padbytes, "reserved": (r1, r2, r3),
                    "zlib_class": zlib_level_class(payload) if method == 2 else None, "pad_complete": complete})
        pos += osz + pad
    return out, pos


def stream_of(b, strict=True):
    cs, end = containers(b, strict)
    return b"".join(c["data"] for c in cs), cs, end


def walk_objects(s):
    """Walk an uncompressed object stream by header fields, the way other BLF tools do:
    next = pos + objectSize + (objectSize % 4 if the following bytes are padding up to a signature).
    Returns list of dicts(pos, headerSize, headerVersion, objectSize, objectType, raw, gap)."""
    out = []
    pos = 0
    n = len(s)
    while pos + 16 <= n:
        sig, hsz, hver, osz, typ = struct.unpack_from("<4sHHII", s, pos)
        if sig != LOBJ:
            raise FormatError("no object signature at stream offset %d" % pos)
        nxt = s.find(LOBJ, pos + 4)
        if nxt < 0:
            nxt = n
        out.append({"pos": pos, "headerSize": hsz, "headerVersion": hver, "objectSize": osz, "objectType": typ,
                    "raw": s[pos:pos + osz], "gap": nxt - pos - osz, "span": s[pos:nxt]})
        pos = nxt
    return out


def reference_logs(repo):
    base = os.path.join(repo, "src/Vector/BLF/tests/unittests")
    return sorted(glob.glob(os.path.join(base, "events_from_binlog/*.blf")) + glob.glob(os.path.join(base, "events_from_converter/*.blf")))


def reference_objects(repo):
    """Every object image of the reference logs: list of (file, index, dict)."""
    out = []
    for f in reference_logs(repo):
        b = open(f, "rb").read()
        try:
            s, cs, end = stream_of(b, strict=True)
        except FormatError:
            continue
        try:
            objs = walk_objects(s)
        except FormatError:
            continue
        for i, o in enumerate(objs):
            out.append((f, i, o))
    return out


def padding_sets(repo):
    """P: type codes observed with padding (objectSize % 4 != 0 and exactly that many bytes before the next signature);
    NP: type codes observed with objectSize % 4 != 0 and no gap."""
    pad, nopad, types = set(), set(), set()
    nobj = 0
    for f, i, o in reference_objects(repo):
        nobj += 1
        types.add(o["objectType"])
        r = o["objectSize"] % 4
        if r:
            if o["gap"] == r:
                pad.add(o["objectType"])
            elif o["gap"] == 0:
                nopad.add(o["objectType"])
    return sorted(pad), sorted(nopad - pad), nobj, len(types)


if __name__ == "__main__":
    import sys
    repo = sys.argv[1] if len(sys.argv) > 1 else "/repo"
    p, npd, n, t = padding_sets(repo)
    print("objects", n, "types", t)
    print("padding types", p)
    print("non-padding types with odd sizes", npd)
