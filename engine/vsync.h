/* Force-included (-include vsync.h) into every library TU and every harness TU of the
 * "sched*" build variants.  It first pulls in every standard header that mentions the
 * identifiers, then renames std::mutex, std::condition_variable, std::thread, std::atomic
 * (and a few relatives) to scheduler-aware types.  The library sources stay untouched.
 *
 * Every substitute wraps the real primitive, which is always uncontended because the
 * scheduler grants logical ownership first; sanitizers therefore still see the program's
 * genuine happens-before edges, and only those.
 */
#pragma once
#ifdef __cplusplus

#include <algorithm>
#include <array>
#include <atomic>
#include <chrono>
#include <condition_variable>
#include <cstdint>
#include <cstring>
#include <exception>
#include <fstream>
#include <functional>
#include <future>
#include <iomanip>
#include <ios>
#include <iostream>
#include <limits>
#include <list>
#include <map>
#include <memory>
#include <mutex>
#include <queue>
#include <set>
#include <sstream>
#include <stdexcept>
#include <string>
#include <thread>
#include <tuple>
#include <utility>
#include <vector>

#include "vsched_api.h"

namespace vs {

class mutex {
  public:
    mutex() noexcept { m_.owner = -1; m_.count = 0; }
    mutex(const mutex &) = delete;
    mutex & operator=(const mutex &) = delete;
    void lock() { vs_mutex_lock(&m_, 0); real_.lock(); }
    bool try_lock() { if (!vs_mutex_trylock(&m_, 0)) return false; real_.lock(); return true; }
    void unlock() { real_.unlock(); vs_mutex_unlock(&m_); }
    vs_mutex_t m_;
    std::mutex real_;
};

class recursive_mutex {
  public:
    recursive_mutex() noexcept { m_.owner = -1; m_.count = 0; }
    recursive_mutex(const recursive_mutex &) = delete;
    recursive_mutex & operator=(const recursive_mutex &) = delete;
    void lock() { vs_mutex_lock(&m_, 1); real_.lock(); }
    bool try_lock() { if (!vs_mutex_trylock(&m_, 1)) return false; real_.lock(); return true; }
    void unlock() { real_.unlock(); vs_mutex_unlock(&m_); }
    vs_mutex_t m_;
    std::recursive_mutex real_;
};

class condition_variable {
  public:
    condition_variable() = default;
    condition_variable(const condition_variable &) = delete;
    condition_variable & operator=(const condition_variable &) = delete;

    void notify_all() noexcept { vs_cv_notify_all(this); }
    void notify_one() noexcept { vs_cv_notify_one(this); }

    void wait(std::unique_lock<mutex> & l) { do_wait(l, 0); }
    template<class P> void wait(std::unique_lock<mutex> & l, P p) { while (!p()) do_wait(l, 0); }

    template<class R, class Pe>
    std::cv_status wait_for(std::unique_lock<mutex> & l, const std::chrono::duration<R, Pe> &) {
        return do_wait(l, 1) ? std::cv_status::no_timeout : std::cv_status::timeout;
    }
    template<class R, class Pe, class P>
    bool wait_for(std::unique_lock<mutex> & l, const std::chrono::duration<R, Pe> &, P p) {
        /* logical time: the timeout may fire at any wake-up without notification */
        while (!p()) if (!do_wait(l, 1)) return p();
        return true;
    }
    template<class C, class D>
    std::cv_status wait_until(std::unique_lock<mutex> & l, const std::chrono::time_point<C, D> &) {
        return do_wait(l, 1) ? std::cv_status::no_timeout : std::cv_status::timeout;
    }
    template<class C, class D, class P>
    bool wait_until(std::unique_lock<mutex> & l, const std::chrono::time_point<C, D> &, P p) {
        while (!p()) if (!do_wait(l, 1)) return p();
        return true;
    }

  private:
    int do_wait(std::unique_lock<mutex> & l, int timed) {
        mutex * m = l.mutex();
        m->real_.unlock();
        int r = vs_cv_wait(this, &m->m_, timed);
        m->real_.lock();
        vs_point(VS_K_CVWOKE, this);
        return r;
    }
    char pad_ {};
};

class thread {
  public:
    class id {
      public:
        id() = default;
        explicit id(int v) : v_(v) {}
        bool operator==(const id & o) const { return v_ == o.v_; }
        bool operator!=(const id & o) const { return v_ != o.v_; }
        bool operator<(const id & o) const { return v_ < o.v_; }
        int v_ {-1};
    };
    thread() noexcept = default;
    template<class F, class... A, class = typename std::enable_if<!std::is_same<typename std::decay<F>::type, thread>::value>::type>
    explicit thread(F && f, A && ... a) {
        auto * fn = new std::function<void()>(std::bind(std::forward<F>(f), std::forward<A>(a)...));
        id_ = vs_thread_create(&thread::tramp, fn);
    }
    thread(const thread &) = delete;
    thread & operator=(const thread &) = delete;
    thread(thread && o) noexcept : id_(o.id_) { o.id_ = -1; }
    thread & operator=(thread && o) noexcept {
        if (id_ >= 0) std::terminate();
        id_ = o.id_;
        o.id_ = -1;
        return *this;
    }
    ~thread() { if (id_ >= 0) std::terminate(); }
    bool joinable() const noexcept { return id_ >= 0; }
    void join() {
        if (id_ < 0) throw std::system_error(std::make_error_code(std::errc::invalid_argument));
        vs_thread_join(id_);
        id_ = -1;
    }
    void detach() {
        if (id_ < 0) throw std::system_error(std::make_error_code(std::errc::invalid_argument));
        vs_thread_detach(id_);
        id_ = -1;
    }
    id get_id() const noexcept { return id(id_); }
    void swap(thread & o) noexcept { std::swap(id_, o.id_); }
    static unsigned hardware_concurrency() noexcept { return 4; }

  private:
    static void tramp(void * p) {
        std::function<void()> * fn = static_cast<std::function<void()> *>(p);
        (*fn)(); /* an escaping exception terminates the process, as with std::thread */
        delete fn;
    }
    int id_ {-1};
};

namespace this_thread {
inline void yield() noexcept { vs_point(VS_K_YIELD, 0); }
template<class R, class P> inline void sleep_for(const std::chrono::duration<R, P> &) { vs_point(VS_K_YIELD, 0); }
template<class C, class D> inline void sleep_until(const std::chrono::time_point<C, D> &) { vs_point(VS_K_YIELD, 0); }
inline thread::id get_id() noexcept { return thread::id(vs_self()); }
}

template<class T>
class atomic {
  public:
    atomic() noexcept : v_() {}
    constexpr atomic(T x) noexcept : v_(x) {}
    atomic(const atomic &) = delete;
    atomic & operator=(const atomic &) = delete;

    operator T() const noexcept { return load(); }
    T operator=(T x) noexcept { store(x); return x; }
    bool is_lock_free() const noexcept { return v_.is_lock_free(); }

    T load(std::memory_order o = std::memory_order_seq_cst) const noexcept { vs_point(VS_K_ALOAD, this); return v_.load(o); }
    void store(T x, std::memory_order o = std::memory_order_seq_cst) noexcept { vs_point(VS_K_ASTORE, this); v_.store(x, o); }
    T exchange(T x, std::memory_order o = std::memory_order_seq_cst) noexcept { vs_point(VS_K_ARMW, this); return v_.exchange(x, o); }
    bool compare_exchange_strong(T & e, T d, std::memory_order o = std::memory_order_seq_cst) noexcept { vs_point(VS_K_ARMW, this); return v_.compare_exchange_strong(e, d, o); }
    bool compare_exchange_strong(T & e, T d, std::memory_order s, std::memory_order f) noexcept { vs_point(VS_K_ARMW, this); return v_.compare_exchange_strong(e, d, s, f); }
    bool compare_exchange_weak(T & e, T d, std::memory_order o = std::memory_order_seq_cst) noexcept { vs_point(VS_K_ARMW, this); return v_.compare_exchange_strong(e, d, o); }
    bool compare_exchange_weak(T & e, T d, std::memory_order s, std::memory_order f) noexcept { vs_point(VS_K_ARMW, this); return v_.compare_exchange_strong(e, d, s, f); }

    template<class U = T> U fetch_add(U x, std::memory_order o = std::memory_order_seq_cst) noexcept { vs_point(VS_K_ARMW, this); return v_.fetch_add(x, o); }
    template<class U = T> U fetch_sub(U x, std::memory_order o = std::memory_order_seq_cst) noexcept { vs_point(VS_K_ARMW, this); return v_.fetch_sub(x, o); }
    template<class U = T> U fetch_and(U x, std::memory_order o = std::memory_order_seq_cst) noexcept { vs_point(VS_K_ARMW, this); return v_.fetch_and(x, o); }
    template<class U = T> U fetch_or(U x, std::memory_order o = std::memory_order_seq_cst) noexcept { vs_point(VS_K_ARMW, this); return v_.fetch_or(x, o); }
    template<class U = T> U fetch_xor(U x, std::memory_order o = std::memory_order_seq_cst) noexcept { vs_point(VS_K_ARMW, this); return v_.fetch_xor(x, o); }
    template<class U = T> U operator++(int) noexcept { vs_point(VS_K_ARMW, this); return v_++; }
    template<class U = T> U operator--(int) noexcept { vs_point(VS_K_ARMW, this); return v_--; }
    template<class U = T> U operator++() noexcept { vs_point(VS_K_ARMW, this); return ++v_; }
    template<class U = T> U operator--() noexcept { vs_point(VS_K_ARMW, this); return --v_; }
    template<class U = T> U operator+=(U x) noexcept { vs_point(VS_K_ARMW, this); return v_ += x; }
    template<class U = T> U operator-=(U x) noexcept { vs_point(VS_K_ARMW, this); return v_ -= x; }
    template<class U = T> U operator&=(U x) noexcept { vs_point(VS_K_ARMW, this); return v_ &= x; }
    template<class U = T> U operator|=(U x) noexcept { vs_point(VS_K_ARMW, this); return v_ |= x; }
    template<class U = T> U operator^=(U x) noexcept { vs_point(VS_K_ARMW, this); return v_ ^= x; }

  private:
    std::atomic<T> v_;
};

class atomic_flag {
  public:
    atomic_flag() noexcept = default;
    constexpr atomic_flag(bool) noexcept {}
    bool test_and_set(std::memory_order o = std::memory_order_seq_cst) noexcept { vs_point(VS_K_ARMW, this); return v_.exchange(true, o); }
    void clear(std::memory_order o = std::memory_order_seq_cst) noexcept { vs_point(VS_K_ASTORE, this); v_.store(false, o); }
  private:
    std::atomic<bool> v_ {false};
};

}  // namespace vs

namespace std {
using vs_mutex = ::vs::mutex;
using vs_recursive_mutex = ::vs::recursive_mutex;
using vs_condition_variable = ::vs::condition_variable;
using vs_thread = ::vs::thread;
template<class T> using vs_atomic = ::vs::atomic<T>;
using vs_atomic_flag = ::vs::atomic_flag;
using vs_atomic_bool = ::vs::atomic<bool>;
using vs_atomic_int = ::vs::atomic<int>;
using vs_atomic_uint = ::vs::atomic<unsigned>;
using vs_atomic_size_t = ::vs::atomic<size_t>;
namespace vs_this_thread = ::vs::this_thread;
}

#define mutex vs_mutex
#define recursive_mutex vs_recursive_mutex
#define condition_variable vs_condition_variable
#define thread vs_thread
#define this_thread vs_this_thread
#define atomic vs_atomic
#define atomic_flag vs_atomic_flag
#define atomic_bool vs_atomic_bool
#define atomic_int vs_atomic_int
#define atomic_uint vs_atomic_uint
#define atomic_size_t vs_atomic_size_t
#undef ATOMIC_FLAG_INIT
#define ATOMIC_FLAG_INIT false

#endif /* __cplusplus */
