/* Stateless, deviation-bounded schedule explorer over the vsched scheduler (harness side).
 *
 * A schedule is the sparse list of deviations (choice index -> alternative); everywhere
 * else the default is taken.  Nodes are processed in order of cost (bound iteration), so
 * the evidence can say which bound was completed when a deadline cuts the run short.
 *
 * The exploration runs in a forked child of a small supervisor: a deadlock, livelock,
 * sanitizer abort or crash kills only the child, and the supervisor attributes it to the
 * schedule the child had published in shared memory.
 */
#pragma once
#include <fcntl.h>
#include <signal.h>
#include <sys/mman.h>
#include <sys/stat.h>
#include <sys/wait.h>
#include <time.h>
#include <unistd.h>

#include <algorithm>
#include <cstddef>
#include <cstdio>
#include <cstdlib>
#include <cstring>
#include <fstream>
#include <functional>
#include <map>
#include <set>
#include <sstream>
#include <string>
#include <unordered_set>
#include <vector>

#include "vsched_api.h"

namespace vx {

inline double now_s() {
    timespec ts;
    clock_gettime(CLOCK_MONOTONIC, &ts);
    return ts.tv_sec + ts.tv_nsec * 1e-9;
}

inline std::string jesc(const std::string & s) {
    std::string o;
    for (unsigned char c : s) {
        if (c == '"' || c == '\\') { o += '\\'; o += (char)c; }
        else if (c == '\n') o += "\\n";
        else if (c == '\t') o += "\\t";
        else if (c < 0x20 || c >= 0x7f) { char b[8]; snprintf(b, sizeof b, "\\u%04x", c); o += b; }
        else o += (char)c;
    }
    return o;
}

struct Violation {
    std::string kind, detail;
    Violation(std::string k, std::string d) : kind(std::move(k)), detail(std::move(d)) {}
};

/* ---- shared memory between supervisor and exploring child ---- */
struct Shm {
    volatile long progress;        /* executions started */
    volatile int ndev;
    vs_dev_t devs[64];             /* schedule being executed */
    volatile int phase;            /* 0 setup, 1 exploring, 2 done */
    volatile int policy;           /* 1: static priority schedule (prio/prio2/change_at describe it) */
    int prio[16], prio2[16];
    volatile long change_at;
    volatile int nprio;
    volatile int have_result;
    char result[1 << 20];          /* JSON written by the child */
};
static Shm * g_shm;

inline std::string sched_str(const vs_dev_t * d, int n) {
    std::ostringstream o;
    o << "[";
    for (int i = 0; i < n; i++) o << (i ? "," : "") << "[" << d[i].index << "," << d[i].alt << "]";
    o << "]";
    return o.str();
}

struct Options {
    int bound = 2;
    int cost_mode = 0;             /* 0: every deviation costs 1; 1: only preemptions cost */
    int max_free = 1 << 30;        /* cost_mode 1: cap on free switches per schedule (reported) */
    int post_release = 0;
    int fairness_k = 400;
    long horizon = 400000;
    double deadline_s = 1e9;       /* wall budget for the exploration */
    int shard = 0, nshards = 1;
    int hang_s = 120;
    std::string replay;            /* "i:a,i:a": run just this schedule */
    int policy = 0;
    std::vector<int> prio, prio2;
    long change_at = -1;
    bool static_family = false;    /* explore the static-priority/single-change family instead of the DFS */
    bool single_outcome = false;   /* every execution must produce the observation of the first one */
    void (*on_point)(int, const void *) = nullptr;
};

struct Stats {
    long executions = 0, points = 0, choices = 0, forced = 0, max_points = 0, max_choices = 0;
    std::vector<long> per_cost;
    std::unordered_set<uint32_t> traces;
    std::map<std::string, long> outcomes;
    std::vector<std::string> samples;
    int bound_completed = -1;
    bool exhaustive = true;
    bool free_cap_hit = false;
    std::string extra;             /* additional top-level JSON members: "k":v,"k2":v2 */
};

static std::string g_harness_name, g_params_json;
static std::string g_cur_outcome;

inline std::string static_str() {
    std::ostringstream o;
    o << "{\"prio\":[";
    for (int i = 0; i < g_shm->nprio; i++) o << (i ? "," : "") << g_shm->prio[i];
    o << "],\"prio2\":[";
    for (int i = 0; i < g_shm->nprio; i++) o << (i ? "," : "") << g_shm->prio2[i];
    o << "],\"change_at\":" << g_shm->change_at << "}";
    return o.str();
}

inline std::string violation_json(const std::string & kind, const std::string & detail, const vs_dev_t * d, int n,
                                  const std::string & extra = "") {
    std::ostringstream o;
    o << "{\"kind\":\"" << jesc(kind) << "\",\"detail\":\"" << jesc(detail) << "\",\"schedule\":" << sched_str(d, n);
    if (g_shm && g_shm->policy == 1) o << ",\"static\":" << static_str();
    if (!extra.empty()) o << "," << extra;
    o << "}";
    return o.str();
}

inline void publish(const std::string & json) {
    size_t n = json.size() < sizeof(g_shm->result) - 1 ? json.size() : sizeof(g_shm->result) - 1;
    memcpy(g_shm->result, json.data(), n);
    g_shm->result[n] = 0;
    g_shm->have_result = 1;
}

inline std::string stats_json(const Stats & st, const std::string & viol) {
    std::ostringstream o;
    o << "{\"harness\":\"" << jesc(g_harness_name) << "\",\"params\":" << (g_params_json.empty() ? "{}" : g_params_json)
      << ",\"executions\":" << st.executions << ",\"points\":" << st.points << ",\"choices\":" << st.choices
      << ",\"forced_yields\":" << st.forced << ",\"max_points\":" << st.max_points << ",\"max_choices\":" << st.max_choices
      << ",\"distinct_traces\":" << st.traces.size() << ",\"distinct_outcomes\":" << st.outcomes.size()
      << ",\"bound_completed\":" << st.bound_completed << ",\"exhaustive\":" << (st.exhaustive ? "true" : "false")
      << ",\"free_cap_hit\":" << (st.free_cap_hit ? "true" : "false") << ",\"per_cost\":[";
    for (size_t i = 0; i < st.per_cost.size(); i++) o << (i ? "," : "") << st.per_cost[i];
    o << "],\"outcomes\":[";
    int k = 0;
    for (auto & kv : st.outcomes) {
        if (k >= 8) break;
        o << (k++ ? "," : "") << "{\"outcome\":\"" << jesc(kv.first.substr(0, 300)) << "\",\"count\":" << kv.second << "}";
    }
    o << "],\"samples\":[";
    for (size_t i = 0; i < st.samples.size(); i++) o << (i ? "," : "") << st.samples[i];
    o << "],";
    if (!st.extra.empty()) o << st.extra << ",";
    o << "\"violation\":" << (viol.empty() ? "null" : viol) << "}";
    return o.str();
}

static Stats * g_stats;
/* set by invariant hooks (which run inside the scheduler and cannot throw) */
static std::string g_inv_violation;
inline void inv_fail(const std::string & s) { if (g_inv_violation.empty()) g_inv_violation = s; }

}  // namespace vx

/* called by the scheduler core on deadlock / livelock / replay divergence; never returns */
extern "C" void vs_fatal_hook(int kind, const char * msg) {
    using namespace vx;
    static const char * names[] = {"?", "deadlock", "livelock", "replay-divergence", "thread-left", "internal", "sync-misuse"};
    const char * nm = (kind >= 1 && kind <= 6) ? names[kind] : "?";
    bool infra = (kind == VS_F_REPLAY || kind == VS_F_INTERNAL);
    if (g_shm) {
        vs_dev_t d[64];
        int n = g_shm->ndev;
        for (int i = 0; i < n; i++) d[i] = g_shm->devs[i];
        std::string v = violation_json(nm, msg ? msg : "", d, n);
        if (g_stats) publish(stats_json(*g_stats, v));
        else publish(std::string("{\"violation\":") + v + "}");
    } else {
        fprintf(stderr, "vs_fatal: %s: %s\n", nm, msg ? msg : "");
    }
    _exit(infra ? 12 : 10);
}

namespace vx {

struct Node {
    std::vector<vs_dev_t> devs;
    int cost = 0, nfree = 0;
};

struct ExecResult {
    std::string outcome;
    vs_result_t r;
};

/* Body: runs one session under the scheduler, returns the observation string.
 * It may throw Violation.  Check: called with the observation; returns "" if fine. */
typedef std::function<std::string()> Body;
typedef std::function<std::string(const std::string &)> Check;

class Explorer {
  public:
    Options opt;
    Stats st;
    Body body;
    Check check;
    bool have_first = false;
    std::string first_outcome;

    vs_config_t make_cfg() {
        vs_config_t c;
        memset(&c, 0, sizeof c);
        c.fairness_k = opt.fairness_k;
        c.horizon = opt.horizon;
        c.post_release = opt.post_release;
        c.policy = opt.policy;
        c.change_at = opt.change_at;
        for (size_t i = 0; i < 16; i++) {
            c.prio[i] = i < opt.prio.size() ? opt.prio[i] : 0;
            c.prio2[i] = i < opt.prio2.size() ? opt.prio2[i] : c.prio[i];
        }
        c.on_point = opt.on_point;
        return c;
    }

    /* run one schedule; fills result; violations exit the child */
    ExecResult run_one(const std::vector<vs_dev_t> & devs) {
        g_shm->ndev = (int)std::min<size_t>(devs.size(), 64);
        for (int i = 0; i < g_shm->ndev; i++) g_shm->devs[i] = devs[i];
        g_shm->progress++;
        vs_config_t c = make_cfg();
        g_shm->policy = c.policy;
        g_shm->change_at = c.change_at;
        g_shm->nprio = (int)std::min<size_t>(opt.prio.size(), 16);
        for (int i = 0; i < 16; i++) { g_shm->prio[i] = c.prio[i]; g_shm->prio2[i] = c.prio2[i]; }
        ExecResult er;
        std::string vk, vd;
        g_inv_violation.clear();
        vs_begin(devs.data(), (int)devs.size(), &c);
        try {
            er.outcome = body();
        } catch (const Violation & v) {
            vk = v.kind;
            vd = v.detail;
        } catch (const std::exception & e) {
            vk = "exception-escaped";
            vd = e.what();
        } catch (...) {
            vk = "exception-escaped";
            vd = "unknown exception";
        }
        if (!vk.empty()) fail(vk, vd, devs, er.outcome);
        vs_end(&er.r);
        if (!g_inv_violation.empty()) fail("invariant", g_inv_violation, devs, er.outcome);
        if (er.r.left_running) fail("thread-left", "a thread was still running or unjoined when the session ended", devs, er.outcome);
        if (check) {
            std::string c2 = check(er.outcome);
            if (!c2.empty()) fail("wrong-result", c2, devs, er.outcome);
        }
        if (opt.single_outcome) {
            if (!have_first) { have_first = true; first_outcome = er.outcome; }
            else if (er.outcome != first_outcome)
                fail("schedule-dependent-result", "observation differs from the one under the default schedule: " + first_outcome.substr(0, 300), devs, er.outcome);
        }
        return er;
    }

    [[noreturn]] void fail(const std::string & kind, const std::string & detail, const std::vector<vs_dev_t> & devs,
                           const std::string & outcome) {
        std::string v = violation_json(kind, detail, devs.data(), (int)devs.size(),
                                       "\"outcome\":\"" + jesc(outcome.substr(0, 2000)) + "\"");
        publish(stats_json(st, v));
        _exit(10);
    }

    void account(const Node & n, const ExecResult & er) {
        st.executions++;
        st.points += er.r.npoints;
        st.choices += er.r.nchoices;
        st.forced += er.r.forced_yields;
        if (er.r.npoints > st.max_points) st.max_points = er.r.npoints;
        if (er.r.nchoices > st.max_choices) st.max_choices = er.r.nchoices;
        if ((int)st.per_cost.size() <= n.cost) st.per_cost.resize(n.cost + 1);
        st.per_cost[n.cost]++;
        st.traces.insert(er.r.trace_hash);
        long & cnt = st.outcomes[er.outcome];
        cnt++;
        if (st.samples.size() < 4 && (st.executions == 1 || (st.executions % 997) == 0 || cnt == 1)) {
            std::ostringstream o;
            o << "{\"schedule\":" << sched_str(n.devs.data(), (int)n.devs.size());
            if (opt.policy == 1) o << ",\"static\":" << static_str();
            o << ",\"points\":" << er.r.npoints
              << ",\"choices\":" << er.r.nchoices << ",\"outcome\":\"" << jesc(er.outcome.substr(0, 200)) << "\"}";
            st.samples.push_back(o.str());
        }
    }

    void determinism_check(const std::vector<vs_dev_t> & devs) {
        ExecResult a = run_one(devs), b = run_one(devs);
        if (a.r.trace_hash != b.r.trace_hash || a.outcome != b.outcome || a.r.npoints != b.r.npoints) {
            std::string v = violation_json("replay-divergence", "same schedule, different trace or observation",
                                           devs.data(), (int)devs.size());
            publish(stats_json(st, v));
            _exit(12);
        }
    }

    void explore() {
        g_stats = &st;
        double t0 = now_s();
        if (!opt.replay.empty()) {
            Node n;
            const char * p = opt.replay.c_str();
            while (*p) {
                vs_dev_t d;
                d.expect_hash = 0;
                d.index = (int)strtol(p, (char **)&p, 10);
                if (*p == ':') p++;
                d.alt = (int)strtol(p, (char **)&p, 10);
                if (*p == ',') p++;
                n.devs.push_back(d);
                if (n.devs.size() >= 60) break;
            }
            if (opt.replay == "-") n.devs.clear();
            ExecResult er = run_one(n.devs);
            ExecResult er2 = run_one(n.devs);
            account(n, er);
            if (er.r.trace_hash != er2.r.trace_hash || er.outcome != er2.outcome) {
                publish(stats_json(st, violation_json("replay-divergence", "replay not deterministic", n.devs.data(), (int)n.devs.size())));
                _exit(12);
            }
            st.bound_completed = 0;
            return;
        }
        if (opt.static_family) {
            explore_static(t0);
            return;
        }
        std::vector<std::vector<Node>> stacks(opt.bound + 1);
        stacks[0].push_back(Node());
        determinism_check({});
        std::vector<vs_dev_t> last;
        bool root = true;
        long ordinal = 0;
        for (int c = 0; c <= opt.bound; c++) {
            while (!stacks[c].empty()) {
                if (now_s() - t0 > opt.deadline_s) {
                    st.exhaustive = false;
                    goto done;
                }
                Node n = std::move(stacks[c].back());
                stacks[c].pop_back();
                ExecResult er = run_one(n.devs);
                account(n, er);
                last = n.devs;
                long from = n.devs.empty() ? 0 : n.devs.back().index + 1;
                for (long i = from; i < er.r.nchoices; i++) {
                    int dc = (opt.cost_mode == 1 && !er.r.cur_en[i]) ? 0 : 1;
                    if (er.r.ch_kind[i] != 0) dc = 1;
                    int nc = n.cost + dc;
                    if (nc > opt.bound) continue;
                    if (dc == 0 && n.nfree >= opt.max_free) {
                        st.free_cap_hit = true;
                        continue;
                    }
                    for (int alt = 1; alt < er.r.nen[i]; alt++) {
                        if (root && opt.nshards > 1 && (ordinal++ % opt.nshards) != opt.shard) continue;
                        Node ch;
                        ch.devs = n.devs;
                        vs_dev_t d;
                        d.index = (int32_t)i;
                        d.alt = alt;
                        d.expect_hash = er.r.ch_hash[i];
                        ch.devs.push_back(d);
                        ch.cost = nc;
                        ch.nfree = n.nfree + (dc == 0 ? 1 : 0);
                        stacks[nc].push_back(std::move(ch));
                    }
                }
                root = false;
            }
            st.bound_completed = c;
        }
    done:
        if (!last.empty()) determinism_check(last);
    }

    /* exhaustive static-priority family: every priority order of the threads, and for each
     * order every single change to every other order at every scheduling point (PCT depth 1,
     * enumerated instead of sampled) */
    void explore_static(double t0) {
        int nthreads = opt.prio.empty() ? 3 : (int)opt.prio.size();
        std::vector<int> perm(nthreads);
        for (int i = 0; i < nthreads; i++) perm[i] = i;
        std::vector<std::vector<int>> orders;
        do orders.push_back(perm); while (std::next_permutation(perm.begin(), perm.end()));
        opt.policy = 1;
        st.bound_completed = -1;
        /* level 0: static orders */
        std::vector<long> npts(orders.size());
        for (size_t a = 0; a < orders.size(); a++) {
            opt.prio = orders[a];
            opt.prio2 = orders[a];
            opt.change_at = -1;
            if (opt.nshards > 1 && opt.shard != 0 && opt.bound >= 1) {
                /* other shards only need the length of the static run */
                Node n0;
                ExecResult e0 = run_one(n0.devs);
                npts[a] = e0.r.npoints;
                continue;
            }
            Node n;
            ExecResult er = run_one(n.devs);
            n.cost = 0;
            account(n, er);
            npts[a] = er.r.npoints;
        }
        st.bound_completed = 0;
        if (opt.bound >= 1) {
            long stride = opt.max_free > 0 && opt.max_free < (1 << 30) ? opt.max_free : 1;
            long ord = 0;
            for (size_t a = 0; a < orders.size(); a++)
                for (size_t b = 0; b < orders.size(); b++) {
                    if (a == b) continue;
                    for (long p = 0; p < npts[a]; p += stride) {
                        if (opt.nshards > 1 && (ord++ % opt.nshards) != opt.shard) continue;
                        if (now_s() - t0 > opt.deadline_s) {
                            st.exhaustive = false;
                            return;
                        }
                        opt.prio = orders[a];
                        opt.prio2 = orders[b];
                        opt.change_at = p;
                        Node n;
                        n.cost = 1;
                        ExecResult er = run_one(n.devs);
                        account(n, er);
                    }
                }
            if (stride == 1) st.bound_completed = 1;
        }
    }
};

/* ---- supervisor ---- */
struct Args {
    std::map<std::string, std::string> kv;
    Args() = default;
    explicit Args(const std::string & line) {
        std::istringstream in(line);
        std::string a;
        while (in >> a) {
            size_t e = a.find('=');
            if (e == std::string::npos) kv[a] = "1";
            else kv[a.substr(0, e)] = a.substr(e + 1);
        }
    }
    Args(int argc, char ** argv) {
        for (int i = 1; i < argc; i++) {
            std::string a = argv[i];
            size_t e = a.find('=');
            if (e == std::string::npos) kv[a] = "1";
            else kv[a.substr(0, e)] = a.substr(e + 1);
        }
    }
    long num(const std::string & k, long d) const {
        auto it = kv.find(k);
        return it == kv.end() ? d : strtol(it->second.c_str(), 0, 0);
    }
    double real(const std::string & k, double d) const {
        auto it = kv.find(k);
        return it == kv.end() ? d : strtod(it->second.c_str(), 0);
    }
    std::string str(const std::string & k, const std::string & d) const {
        auto it = kv.find(k);
        return it == kv.end() ? d : it->second;
    }
    std::string json() const {
        std::ostringstream o;
        o << "{";
        bool f = true;
        for (auto & p : kv) {
            if (p.first == "deadline" || p.first == "until" || p.first == "batch") continue;
            o << (f ? "" : ",") << "\"" << jesc(p.first) << "\":\"" << jesc(p.second) << "\"";
            f = false;
        }
        o << "}";
        return o.str();
    }
    void apply(Options & o) const {
        o.bound = (int)num("bound", o.bound);
        o.cost_mode = (int)num("costmode", o.cost_mode);
        o.max_free = (int)num("maxfree", o.max_free);
        o.post_release = (int)num("postrelease", o.post_release);
        o.fairness_k = (int)num("fair", o.fairness_k);
        o.horizon = num("horizon", o.horizon);
        o.deadline_s = real("deadline", o.deadline_s);
        o.hang_s = (int)num("hang", o.hang_s);
        o.replay = str("replay", "");
        o.static_family = num("static", 0) != 0;
        o.single_outcome = num("single", 0) != 0;
        auto plist = [&](const std::string & k, std::vector<int> & v) {
            std::string t = str(k, "");
            if (t.empty()) return;
            v.clear();
            const char * q = t.c_str();
            while (*q) { v.push_back((int)strtol(q, (char **)&q, 10)); if (*q == ',') q++; }
        };
        plist("prio", o.prio);
        plist("prio2", o.prio2);
        o.change_at = num("changeat", o.change_at);
        if (!str("prio", "").empty() && !o.static_family) o.policy = 1;
        std::string sh = str("shard", "");
        if (!sh.empty()) sscanf(sh.c_str(), "%d/%d", &o.shard, &o.nshards);
    }
};

inline std::string read_tail(const std::string & path, size_t maxb) {
    FILE * f = fopen(path.c_str(), "rb");
    if (!f) return "";
    fseek(f, 0, SEEK_END);
    long sz = ftell(f);
    std::string s;
    if (sz <= (long)maxb) {
        fseek(f, 0, SEEK_SET);
        s.resize(sz);
        size_t n = fread(&s[0], 1, s.size(), f);
        s.resize(n);
    } else {
        /* head and tail: sanitizer reports start with the access and end with the summary */
        size_t h = maxb * 2 / 3, t = maxb - h;
        std::string a(h, 0), b(t, 0);
        fseek(f, 0, SEEK_SET);
        a.resize(fread(&a[0], 1, h, f));
        fseek(f, sz - (long)t, SEEK_SET);
        b.resize(fread(&b[0], 1, t, f));
        s = a + "\n[...]\n" + b;
    }
    fclose(f);
    return s;
}

/* Runs `child_main` (which calls Explorer::explore and returns normally on success) in a
 * forked child.  Prints exactly one JSON line.  Exit: 0 ok, 1 violation, 2 infrastructure. */
inline int supervise(const std::string & harness, const Args & args, Options & opt,
                     const std::function<void(Explorer &)> & child_main, const std::string & scratch_dir) {
    g_harness_name = harness;
    g_params_json = args.json();
    static Shm * shm_once = nullptr;
    if (!shm_once) {
        shm_once = (Shm *)mmap(0, sizeof(Shm), PROT_READ | PROT_WRITE, MAP_SHARED | MAP_ANONYMOUS, -1, 0);
        if (shm_once == MAP_FAILED) { printf("{\"infra\":\"mmap failed\"}\n"); return 2; }
    }
    g_shm = shm_once;
    memset((void *)g_shm, 0, offsetof(Shm, result) + 1);
    std::string errfile = scratch_dir + "/stderr.txt";
    double t0 = now_s();
    fflush(stdout);
    pid_t pid = fork();
    if (pid < 0) { printf("{\"infra\":\"fork failed\"}\n"); return 2; }
    if (pid == 0) {
        int fd = open(errfile.c_str(), O_WRONLY | O_CREAT | O_TRUNC, 0644);
        if (fd >= 0) { dup2(fd, 2); close(fd); }
        Explorer ex;
        ex.opt = opt;
        child_main(ex);
        publish(stats_json(ex.st, ""));
        fflush(stdout);
        _exit(0);
    }
    int status = 0;
    long lastp = -1;
    double lastchange = now_s();
    bool hung = false;
    useconds_t nap = 50;
    for (;;) {
        pid_t r = waitpid(pid, &status, WNOHANG);
        if (r == pid) break;
        usleep(nap);
        if (nap < 20000) nap = nap * 3 / 2;
        long p = g_shm->progress;
        if (p != lastp) { lastp = p; lastchange = now_s(); }
        else if (now_s() - lastchange > opt.hang_s) {
            kill(pid, SIGKILL);
            waitpid(pid, &status, 0);
            hung = true;
            break;
        }
    }
    double wall = now_s() - t0;
    std::string res = g_shm->have_result ? std::string(g_shm->result) : std::string();
    int code;
    if (hung) {
        vs_dev_t d[64];
        int n = g_shm->ndev;
        for (int i = 0; i < n; i++) d[i] = g_shm->devs[i];
        std::ostringstream o;
        o << "{\"harness\":\"" << jesc(harness) << "\",\"params\":" << g_params_json << ",\"executions\":" << g_shm->progress
          << ",\"violation\":" << violation_json("hang", "no progress for " + std::to_string(opt.hang_s) + " s inside one execution (no synchronisation point reached)", d, n) << "}";
        res = o.str();
        code = 1;
    } else if (WIFEXITED(status) && WEXITSTATUS(status) == 0 && !res.empty()) {
        code = 0;
    } else if (WIFEXITED(status) && WEXITSTATUS(status) == 10 && !res.empty()) {
        code = 1;
    } else if (WIFEXITED(status) && WEXITSTATUS(status) == 12) {
        code = 2;
    } else if (g_shm->progress == 0) {
        std::ostringstream o;
        o << "{\"infra\":\"harness setup failed (status " << status << ")\",\"stderr\":\"" << jesc(read_tail(errfile, 3000)) << "\"}";
        res = o.str();
        code = 2;
    } else {
        /* crash / sanitizer abort / std::terminate during an execution */
        vs_dev_t d[64];
        int n = g_shm->ndev;
        for (int i = 0; i < n; i++) d[i] = g_shm->devs[i];
        std::string why = WIFSIGNALED(status) ? "killed by signal " + std::to_string(WTERMSIG(status))
                                               : "exit status " + std::to_string(WEXITSTATUS(status));
        std::string err = read_tail(errfile, 6000);
        std::string kind = "crash";
        if (err.find("ThreadSanitizer") != std::string::npos) kind = "data-race";
        else if (err.find("AddressSanitizer") != std::string::npos) kind = "memory-error";
        else if (err.find("runtime error") != std::string::npos) kind = "undefined-behaviour";
        else if (err.find("terminate called") != std::string::npos) kind = "terminate";
        std::ostringstream o;
        o << "{\"harness\":\"" << jesc(harness) << "\",\"params\":" << g_params_json << ",\"executions\":" << g_shm->progress
          << ",\"violation\":" << violation_json(kind, why, d, n, "\"stderr\":\"" + jesc(err) + "\"") << "}";
        res = o.str();
        code = 1;
    }
    /* append wall time */
    if (!res.empty() && res.back() == '}') {
        char b[64];
        snprintf(b, sizeof b, ",\"wall_s\":%.3f}", wall);
        res.pop_back();
        res += b;
    }
    printf("%s\n", res.c_str());
    fflush(stdout);
    unlink(errfile.c_str());
    g_shm = nullptr;
    return code;
}

/* batch=<file>: one configuration per line (merged over the command-line arguments);
 * until=<unix time>: configurations not started by then are reported as skipped */
inline int run_batch(int argc, char ** argv, const std::function<int(const Args &)> & run_config) {
    Args base(argc, argv);
    std::string batch = base.str("batch", "");
    if (batch.empty()) return run_config(base);
    std::ifstream in(batch);
    std::string line;
    int rc = 0;
    double until = base.real("until", 0);
    while (std::getline(in, line)) {
        if (line.empty()) continue;
        Args a = base;
        a.kv.erase("batch");
        Args l(line);
        for (auto & p : l.kv) a.kv[p.first] = p.second;
        if (until > 0) {
            timespec ts;
            clock_gettime(CLOCK_REALTIME, &ts);
            double left = until - (ts.tv_sec + ts.tv_nsec * 1e-9);
            if (left <= 0) {
                printf("{\"skipped\":true,\"params\":%s}\n", a.json().c_str());
                fflush(stdout);
                continue;
            }
            double dl = a.real("deadline", 1e9);
            if (left < dl) a.kv["deadline"] = std::to_string(left);
        }
        int r = run_config(a);
        if (r > rc) rc = r;
    }
    return rc;
}

inline std::string make_scratch() {
    static std::string cached;
    if (!cached.empty()) return cached;
    const char * base = getenv("VERIF_SCRATCH");
    std::string b = base ? base : (access("/dev/shm", W_OK) == 0 ? "/dev/shm" : "/tmp");
    char tmpl[256];
    snprintf(tmpl, sizeof tmpl, "%s/vverif.XXXXXX", b.c_str());
    char * d = mkdtemp(tmpl);
    cached = d ? std::string(d) : b;
    return cached;
}

inline void remove_scratch(const std::string & d) {
    if (d.find("vverif.") == std::string::npos) return;
    std::string cmd = "rm -rf '" + d + "'";
    int r = system(cmd.c_str());
    (void)r;
}

}  // namespace vx
