#!/usr/bin/env python3
"""Regenerates MANIFEST.json from the table below (keeps it valid at all times)."""
import json
import os

VERIF = os.path.dirname(os.path.dirname(os.path.abspath(__file__)))

CHECKS = {}
NA_REASON = "check under construction (see DESIGN.md section for this property); not claimed yet"


def check(pid, category, text, note, technique, engine, design_ref):
    CHECKS[pid] = {
        "property_id": pid,
        "quick_cmd": "bin/check %s --tier quick" % pid,
        "thorough_cmd": "bin/check %s --tier thorough" % pid,
        "evidence_file": "evidence/%s.json" % pid,
        "replay_cmd_template": "bin/check %s --replay {path}" % pid,
        "engine": engine,
        "level_claimed": {"category": category, "text": text, "design_ref": design_ref},
        "level_note": note,
        "technique": technique,
    }


SCHED_NOTE = ("trusted: g++/libstdc++, the scheduler's claim that scheduling points at mutex/condvar/thread/atomic operations "
              "suffice (backed by the ThreadSanitizer pass of C11), sequential consistency, no spurious wake-ups; sizes scaled down")

check("C06", "model_checking",
      "stateless model checking of the real File/UncompressedFile/ObjectQueue code: every interleaving of the application and "
      "the two worker threads up to a deviation bound (0 on a 43k-configuration size grid, 1 on n<=3, 2 on n<=2/3, 3 on the smallest), "
      "plus the exhaustive static-priority/one-change family on 200-object sessions; deadlock is detected exactly (no enabled "
      "thread), livelock by a horizon under a fairness rule",
      SCHED_NOTE, "stateless model checking (deviation-bounded DFS over a deterministic scheduler, real code)", "E1 vsched", "DESIGN.md C06")


def main():
    props = [json.loads(l)["id"] for l in open(os.path.join(VERIF, "properties.jsonl"))]
    m = {
        "version": 1,
        "setup_cmd": "python3 engine/setup.py",
        "hooks": {
            "guard": "VECTOR_BLF_VERIF",
            "enable": "no source hooks: /verif compiles /repo/src/Vector/BLF/*.cpp itself (engine/build.py) with "
                      "-include engine/vsync.h, which substitutes std::mutex/condition_variable/thread/atomic at compile time",
            "baseline_off_cmd": "cmake --build /repo/_build && ctest --test-dir /repo/_build -j16 --timeout 60",
            "source_commits": [],
            "add_only": True,
        },
        "engines": [
            {"name": "E1 vsched", "path": "engine/vsched.cpp engine/vsync.h engine/explore.h",
             "serves_properties": ["C06", "C07", "C11", "C12", "C13", "C16"],
             "kind_free_text": "deterministic scheduler substituted for the std synchronisation types + deviation-bounded stateless explorer"},
            {"name": "E2 seqx", "path": "harness/h_seq_*.cpp", "serves_properties": ["C15", "C16", "C13"],
             "kind_free_text": "explicit-state BFS over operation histories on the real objects against a reference model"},
            {"name": "E3 enum", "path": "engine/reflect harness/h_codec*.cpp engine/blfpy",
             "serves_properties": ["C01", "C02", "C03", "C04", "C05", "C09", "C14", "C17"],
             "kind_free_text": "bounded-exhaustive enumeration of object shapes x fill patterns x configurations with generated reflection"},
            {"name": "E4 fault", "path": "harness/h_fault*.cpp", "serves_properties": ["C08", "C10"],
             "kind_free_text": "every truncation offset and every member of finite mutation sets, sanitizer builds"},
        ],
        "checks": [CHECKS[p] for p in props if p in CHECKS],
        "not_applicable": [{"property_id": p, "reason": NA_REASON} for p in props if p not in CHECKS],
        "notes": "All checks rebuild the library from /repo's working tree (content-addressed cache under /verif/build).",
    }
    with open(os.path.join(VERIF, "MANIFEST.json"), "w") as f:
        json.dump(m, f, indent=1)
    print("claimed:", [p for p in props if p in CHECKS])


if __name__ == "__main__":
    main()
