#!/usr/bin/env python3
"""Regenerates MANIFEST.json from the table below (keeps it valid at all times)."""
import json
import os

VERIF = os.path.dirname(os.path.dirname(os.path.abspath(__file__)))

CHECKS = {}
NA_REASON = "check under construction (see DESIGN.md section for this property); not claimed yet"


def check(pid, category, text, note, technique, engine, design_ref):
    CHECKS[pid] = {
        "property_id": pid,
        "quick_cmd": "bin/check %s --tier quick" % pid,
        "thorough_cmd": "bin/check %s --tier thorough" % pid,
        "evidence_file": "evidence/%s.json" % pid,
        "replay_cmd_template": "bin/check %s --replay {path}" % pid,
        "engine": engine,
        "level_claimed": {"category": category, "text": text, "design_ref": design_ref},
        "level_note": note,
        "technique": technique,
    }


SCHED_NOTE = ("trusted: g++/libstdc++, the scheduler's claim that scheduling points at mutex/condvar/thread/atomic operations "
              "suffice (backed by the ThreadSanitizer pass of C11), sequential consistency, no spurious wake-ups; sizes scaled down")

check("C06", "model_checking",
      "stateless model checking of the real File/UncompressedFile/ObjectQueue code: every interleaving of the application and "
      "the two worker threads up to a deviation bound (0 on a 43k-configuration size grid, 1 on n<=3, 2 on n<=2/3, 3 on the smallest), "
      "plus the exhaustive static-priority/one-change family on 200-object sessions; deadlock is detected exactly (no enabled "
      "thread), livelock by a horizon under a fairness rule",
      SCHED_NOTE, "stateless model checking (deviation-bounded DFS over a deterministic scheduler, real code)", "E1 vsched", "DESIGN.md C06")

check("C07", "model_checking",
      "same engine as C06; the oracle is on results: delivered objects are re-encoded and compared byte by byte with the objects "
      "the input was assembled from (order, exactly once, null only after the last), written files must equal the reference "
      "assembly, and every schedule must reproduce the observation of the default schedule (bound 1 on sessions of 1-4 objects, "
      "bound 2 on 1-2/3 objects, bound 1 with additional scheduling points right after every release, static-priority/one-change family on "
      "sessions of 300 objects)",
      SCHED_NOTE, "stateless model checking (deviation-bounded DFS over a deterministic scheduler, real code)", "E1 vsched", "DESIGN.md C07")
check("C11", "model_checking",
      "ThreadSanitizer's happens-before analysis on every explored schedule of read/write sessions (the scheduler's hand-offs are "
      "invisible to it) and AddressSanitizer with post-release scheduling points, where an access after hand-over is a "
      "deterministic use-after-free because the application scribbles over and frees each object at once; bounds 1 and 2; also write "
      "sessions whose compression thread ends with an exception",
      SCHED_NOTE + "; TSan/ASan runtime correctness", "stateless model checking with sanitizer oracles (TSan + ASan under the scheduler)", "E1 vsched", "DESIGN.md C11")
check("C12", "model_checking",
      "invariant (decoded container bytes <= buffer + 3 containers + largest object; queue <= capacity; no allocation above the cap) "
      "evaluated at every scheduling point of every explored schedule (bounds 1, 2), plus peak container bytes / live heap of "
      "sessions over N0..8 N0 containers (beyond saturation) under the 6 static priority orders, which must not grow with N",
      SCHED_NOTE + "; heap accounted by replaced operator new/delete", "stateless model checking with a state invariant + exhaustive static-schedule family", "E1 vsched", "DESIGN.md C12")
check("C15", "model_checking",
      "explicit-state breadth-first search over operation histories of the real UncompressedFile against a reference byte-queue "
      "model: full alphabet to depth 7 (quick) / 8 (thorough), four usage-mode sub-alphabets to closure (arbitrarily long "
      "sequences within 8-24 bytes; one moves the declared end into the data already written); every transition runs the implementation; "
      "an operation that does not return is a violation of the history being replayed",
      "reference model written from the class documentation and test_UncompressedFile; behaviours the documentation leaves open are not demanded (listed in the evidence assumptions)",
      "explicit-state model checking (BFS with canonical state, model/implementation lock-step)", "E2 seqx", "DESIGN.md C15")
check("C16", "model_checking",
      "sequential: BFS to closure over {write, read, setFileSize, abort, setBufferSize} on the real ObjectQueue against a reference "
      "model (5-8 objects); concurrent: producer + consumer + third thread on the bare queue, every interleaving with preemption "
      "bound 2 (unbounded free switches), deviation bound 3, and with no bound at all for n <= 2 (quick) / 3 (thorough)",
      SCHED_NOTE, "explicit-state BFS + stateless model checking (preemption-bounded and unbounded)", "E1 vsched + E2 seqx", "DESIGN.md C16")

ENUM_NOTE = ("trusted: g++/clang, ASan/UBSan, the generated reflection (clang AST of File.h), the hand-written selector table and the "
             "argument that non-selector scalars are copied opaquely (small fill-pattern alphabet)")
check("C01", "model_checking",
      "bounded-exhaustive enumeration: every object of the universe U (12k objects: every class x selector values incl. offsets at the natural trailer position x payload lengths x "
      "fill patterns incl. strings with NUL bytes) alone and all sequences of length <= 2 (3 on a sub-grid) over a 15-object alphabet, written and read back through "
      "File for levels 0..9 x 18 container sizes x restore points on/off, each session under the scheduler's default schedule; objects "
      "read back are compared field by field (generated reflection) with the ORIGINAL object on every field the object serialises or its "
      "layout variant must serialise (hand-written table); plus the codec round trip on all of U",
      ENUM_NOTE, "small-scope exhaustive enumeration with a differential/reflection oracle", "E3 enum", "DESIGN.md C01")
check("C02", "model_checking",
      "all 517 object images of the reference logs and raw-object samples (114 types) and every derived image (every byte in "
      "[16,objectSize) x 8 boundary values / all 255 values, every aligned 2/4/8-byte group x 5 patterns) that still decodes completely "
      "with the same shape: decode->encode must reproduce it, recomputed fields excepted; under ASan+UBSan",
      ENUM_NOTE + "; the independent Python decoder cuts the images", "exhaustive enumeration of single-field mutations of reference images", "E3 enum", "DESIGN.md C02")
check("C03", "model_checking",
      "framing oracle on every object of U (incl. payloads longer than their 8/16-bit length field can say) with a tracing in-memory stream (layout map): headerSize vs header bytes, objectSize vs emitted, "
      "padding rule by type (set computed from the reference logs by the independent decoder), every length field vs payload emitted, "
      "decoding consumes exactly the emitted bytes; ASan+UBSan (no read outside the caller's containers)",
      ENUM_NOTE, "small-scope exhaustive enumeration with a layout-map oracle", "E3 enum", "DESIGN.md C03")
check("C04", "model_checking",
      "files written through File over the sequence x configuration grid (10k quick; alphabet incl. payloads of 5 containers + 3 bytes, one of "
      "them incompressible) are parsed by an independent stdlib-only Python "
      "decoder that checks every clause of the container format and compares the concatenated payload with the objects' encodings",
      "trusted: CPython struct/zlib; the reading of '4-byte alignment' as the format's objectSize%4 padding rule", "exhaustive enumeration + independent decoder (differential)", "E3 enum + blfpy", "DESIGN.md C04")
check("C05", "model_checking",
      "header on disk vs an independent recomputation from the container walk for the grid x 8 caller-supplied header patterns (before open(), after open(), after the last write); every "
      "written file and all 170 reference logs read completely through File and the reader's counters compared with the header",
      "trusted: CPython struct/zlib", "exhaustive enumeration + independent recomputation", "E3 enum + blfpy", "DESIGN.md C05")
check("C08", "fault_enumeration",
      "every truncation offset of seed files for levels {0,1,6,9} x container sizes {32,100,default} x final/initial header x static "
      "priority orders, each prefix read through File under the scheduler (ASan+UBSan); oracle from the container layout by the declared sizes (alignment bytes belong "
      "to neither container nor object): exactly the objects wholly inside completely stored containers; monotonicity across offsets",
      "seed files are the reference assembly, shown byte-identical to the library's output by C01/C04/C07", "exhaustive crash-point enumeration", "E4 fault", "DESIGN.md C08")
check("C09", "model_checking",
      "all filler strings over {L,O,B,J,x} without the signature up to length 7/9 at every inter-object position, split into two "
      "containers at every offset (fillers <= 3/4), unknown type codes x declared sizes {0,1,15,16..44,48,4096} x declared header size/version x "
      "positions x split; the real decoding stage is driven on a File whose stream the harness filled; fillers and unknown objects straddling "
      "containers (next container on demand) also as complete File sessions under the scheduler",
      "the resynchroniser distinguishes only the five symbols (4-byte window)", "exhaustive enumeration over a reduced alphabet", "E3 enum", "DESIGN.md C09")
check("C10", "fault_enumeration",
      "complete mutation sets M1-M6 (byte and word substitutions, truncations, block deletion/duplication, the same on the re-packed "
      "uncompressed stream, all length/size/selector fields and pairs) of five seed files holding an object of every class plus "
      "reference logs: 384k members (quick), each read through File under the scheduler with ASan+UBSan and a 256 MiB allocation cap",
      "sanitizers as oracle; deadlock/livelock exact under the scheduler; watchdog for CPU loops", "exhaustive fault enumeration (finite mutation sets)", "E4 fault", "DESIGN.md C10")
check("C13", "model_checking",
      "all call histories of a session grammar (length <= 12; 3.9k quick / 6k thorough; incl. open again in either direction and a null pointer "
      "passed to write()) on files of {0,1,3,11,50} objects under the default schedule and the 6 static priority orders, abandonment histories "
      "with every single deviation (pairs on the short ones, queue capacity 1), the same with the stream buffer smaller than the file, a "
      "sub-grid under ASan with post-release points; oracle: reference session machine for is_open/good/eof, counting destructors, live-allocation count, threads joined",
      SCHED_NOTE, "explicit enumeration of operation histories x stateless schedule exploration", "E1 vsched + E2", "DESIGN.md C13")
check("C14", "model_checking",
      "file bytes identical across 5 heap poison patterns (24k sessions each), the same session twice in one process and again after different "
      "earlier sessions (reversed order, other split), across all schedules with one deviation of write sessions ending on/off container "
      "boundaries with padded and unpadded objects, encodings identical across g++ / clang auto-init-zero / "
      "auto-init-pattern builds, filler bytes zero in every encoding of U",
      ENUM_NOTE, "exhaustive enumeration with differential comparison across environments", "E3 enum + E1", "DESIGN.md C14")
check("C17", "model_checking",
      "factory probed for all codes 0..255 and boundary 32-bit codes against the class File.h's include list assigns; every class "
      "default-constructed into memory pre-filled with {00,ff,aa,55}: all reflected fields and the encoding identical, constructor "
      "code maps back to the class, written and read back under that code (codec level, consuming exactly the bytes written, and alone "
      "through File)",
      ENUM_NOTE, "exhaustive enumeration", "E3 enum", "DESIGN.md C17")


def main():
    props = [json.loads(l)["id"] for l in open(os.path.join(VERIF, "properties.jsonl"))]
    m = {
        "version": 1,
        "setup_cmd": "python3 engine/setup.py",
        "hooks": {
            "guard": "VECTOR_BLF_VERIF",
            "enable": "no source hooks: /verif compiles /repo/src/Vector/BLF/*.cpp itself (engine/build.py) with "
                      "-include engine/vsync.h, which substitutes std::mutex/condition_variable/thread/atomic at compile time",
            "baseline_off_cmd": "cmake --build /repo/_build && ctest --test-dir /repo/_build -j16 --timeout 60",
            "source_commits": [],
            "add_only": True,
        },
        "engines": [
            {"name": "E1 vsched", "path": "engine/vsched.cpp engine/vsync.h engine/explore.h",
             "serves_properties": ["C06", "C07", "C11", "C12", "C13", "C16"],
             "kind_free_text": "deterministic scheduler substituted for the std synchronisation types + deviation-bounded stateless explorer"},
            {"name": "E2 seqx", "path": "harness/h_seq_*.cpp", "serves_properties": ["C15", "C16", "C13"],
             "kind_free_text": "explicit-state BFS over operation histories on the real objects against a reference model"},
            {"name": "E3 enum", "path": "engine/reflect harness/h_codec*.cpp engine/blfpy",
             "serves_properties": ["C01", "C02", "C03", "C04", "C05", "C09", "C14", "C17"],
             "kind_free_text": "bounded-exhaustive enumeration of object shapes x fill patterns x configurations with generated reflection"},
            {"name": "E4 fault", "path": "harness/h_fault*.cpp", "serves_properties": ["C08", "C10"],
             "kind_free_text": "every truncation offset and every member of finite mutation sets, sanitizer builds"},
        ],
        "checks": [CHECKS[p] for p in props if p in CHECKS],
        "not_applicable": [{"property_id": p, "reason": NA_REASON} for p in props if p not in CHECKS],
        "notes": "All checks rebuild the library from /repo's working tree (content-addressed cache under /verif/build).",
    }
    with open(os.path.join(VERIF, "MANIFEST.json"), "w") as f:
        json.dump(m, f, indent=1)
    print("claimed:", [p for p in props if p in CHECKS])


if __name__ == "__main__":
    main()
