#!/usr/bin/env python3
"""Regenerates MANIFEST.json from the table below (keeps it valid at all times)."""
import json
import os

VERIF = os.path.dirname(os.path.dirname(os.path.abspath(__file__)))

CHECKS = {}
NA_REASON = "check under construction (see DESIGN.md section for this property); not claimed yet"


def check(pid, category, text, note, technique, engine, design_ref):
    CHECKS[pid] = {
        "property_id": pid,
        "quick_cmd": "bin/check %s --tier quick" % pid,
        "thorough_cmd": "bin/check %s --tier thorough" % pid,
        "evidence_file": "evidence/%s.json" % pid,
        "replay_cmd_template": "bin/check %s --replay {path}" % pid,
        "engine": engine,
        "level_claimed": {"category": category, "text": text, "design_ref": design_ref},
        "level_note": note,
        "technique": technique,
    }


SCHED_NOTE = ("trusted: g++/libstdc++, the scheduler's claim that scheduling points at mutex/condvar/thread/atomic operations "
              "suffice (backed by the ThreadSanitizer pass of C11), sequential consistency, no spurious wake-ups; sizes scaled down")

check("C06", "model_checking",
      "stateless model checking of the real File/UncompressedFile/ObjectQueue code: every interleaving of the application and "
      "the two worker threads up to a deviation bound (0 on a 43k-configuration size grid, 1 on n<=3, 2 on n<=2/3, 3 on the smallest), "
      "plus the exhaustive static-priority/one-change family on 200-object sessions; deadlock is detected exactly (no enabled "
      "thread), livelock by a horizon under a fairness rule",
      SCHED_NOTE, "stateless model checking (deviation-bounded DFS over a deterministic scheduler, real code)", "E1 vsched", "DESIGN.md C06")

check("C07", "model_checking",
      "same engine as C06; the oracle is on results: delivered objects are re-encoded and compared byte by byte with the objects "
      "the input was assembled from (order, exactly once, null only after the last), written files must equal the reference "
      "assembly, and every schedule must reproduce the observation of the default schedule (bound 1 on sessions of 1-4 objects, "
      "bound 2 on 1-2/3 objects, static-priority/one-change family on sessions of 300 objects)",
      SCHED_NOTE, "stateless model checking (deviation-bounded DFS over a deterministic scheduler, real code)", "E1 vsched", "DESIGN.md C07")
check("C11", "model_checking",
      "ThreadSanitizer's happens-before analysis on every explored schedule of read/write sessions (the scheduler's hand-offs are "
      "invisible to it) and AddressSanitizer with post-release scheduling points, where an access after hand-over is a "
      "deterministic use-after-free because the application scribbles over and frees each object at once; bounds 1 and 2",
      SCHED_NOTE + "; TSan/ASan runtime correctness", "stateless model checking with sanitizer oracles (TSan + ASan under the scheduler)", "E1 vsched", "DESIGN.md C11")
check("C12", "model_checking",
      "invariant (decoded container bytes <= buffer + 3 containers + largest object; queue <= capacity; no allocation above the cap) "
      "evaluated at every scheduling point of every explored schedule (bounds 1, 2), plus peak container bytes / live heap of "
      "sessions over N0..8 N0 containers (beyond saturation) under the 6 static priority orders, which must not grow with N",
      SCHED_NOTE + "; heap accounted by replaced operator new/delete", "stateless model checking with a state invariant + exhaustive static-schedule family", "E1 vsched", "DESIGN.md C12")
check("C15", "model_checking",
      "explicit-state breadth-first search over operation histories of the real UncompressedFile against a reference byte-queue "
      "model: full alphabet to depth 6 (quick) / 8 (thorough), three usage-mode sub-alphabets to closure (arbitrarily long "
      "sequences within 10-24 bytes); every transition runs the implementation",
      "reference model written from the class documentation and test_UncompressedFile; behaviours the documentation leaves open are not demanded (listed in the evidence assumptions)",
      "explicit-state model checking (BFS with canonical state, model/implementation lock-step)", "E2 seqx", "DESIGN.md C15")
check("C16", "model_checking",
      "sequential: BFS to closure over {write, read, setFileSize, abort, setBufferSize} on the real ObjectQueue against a reference "
      "model (5-8 objects); concurrent: producer + consumer + third thread on the bare queue, every interleaving with preemption "
      "bound 2 (unbounded free switches), deviation bound 3, and with no bound at all for n <= 2 (quick) / 3 (thorough)",
      SCHED_NOTE, "explicit-state BFS + stateless model checking (preemption-bounded and unbounded)", "E1 vsched + E2 seqx", "DESIGN.md C16")


def main():
    props = [json.loads(l)["id"] for l in open(os.path.join(VERIF, "properties.jsonl"))]
    m = {
        "version": 1,
        "setup_cmd": "python3 engine/setup.py",
        "hooks": {
            "guard": "VECTOR_BLF_VERIF",
            "enable": "no source hooks: /verif compiles /repo/src/Vector/BLF/*.cpp itself (engine/build.py) with "
                      "-include engine/vsync.h, which substitutes std::mutex/condition_variable/thread/atomic at compile time",
            "baseline_off_cmd": "cmake --build /repo/_build && ctest --test-dir /repo/_build -j16 --timeout 60",
            "source_commits": [],
            "add_only": True,
        },
        "engines": [
            {"name": "E1 vsched", "path": "engine/vsched.cpp engine/vsync.h engine/explore.h",
             "serves_properties": ["C06", "C07", "C11", "C12", "C13", "C16"],
             "kind_free_text": "deterministic scheduler substituted for the std synchronisation types + deviation-bounded stateless explorer"},
            {"name": "E2 seqx", "path": "harness/h_seq_*.cpp", "serves_properties": ["C15", "C16", "C13"],
             "kind_free_text": "explicit-state BFS over operation histories on the real objects against a reference model"},
            {"name": "E3 enum", "path": "engine/reflect harness/h_codec*.cpp engine/blfpy",
             "serves_properties": ["C01", "C02", "C03", "C04", "C05", "C09", "C14", "C17"],
             "kind_free_text": "bounded-exhaustive enumeration of object shapes x fill patterns x configurations with generated reflection"},
            {"name": "E4 fault", "path": "harness/h_fault*.cpp", "serves_properties": ["C08", "C10"],
             "kind_free_text": "every truncation offset and every member of finite mutation sets, sanitizer builds"},
        ],
        "checks": [CHECKS[p] for p in props if p in CHECKS],
        "not_applicable": [{"property_id": p, "reason": NA_REASON} for p in props if p not in CHECKS],
        "notes": "All checks rebuild the library from /repo's working tree (content-addressed cache under /verif/build).",
    }
    with open(os.path.join(VERIF, "MANIFEST.json"), "w") as f:
        json.dump(m, f, indent=1)
    print("claimed:", [p for p in props if p in CHECKS])


if __name__ == "__main__":
    main()
