#!/usr/bin/env python3
"""MANIFEST.setup_cmd: pre-build every library variant and harness the checks use, from files on disk (offline).
The checks rebuild by content hash anyway; this only warms the cache so that the first quick run is not dominated by compiling."""
import os
import sys
import time

HERE = os.path.dirname(os.path.abspath(__file__))
sys.path.insert(0, HERE)
sys.path.insert(0, os.path.join(HERE, "reflect"))
import build
import gen_reflect

PLAIN = [("h_session", "sched"), ("h_session", "sched-tsan"), ("h_session", "sched-asan"), ("h_queue", "sched"), ("h_queue", "sched-asan"), ("h_stream", "sched"),
         ("h_seq_stream", "plain"), ("h_seq_stream", "plain-asan"), ("h_seq_queue", "plain"), ("h_seq_queue", "plain-asan"),
         ("h_resync", "sched-asan"), ("h_hist", "sched"), ("h_hist", "sched-asan")]
REFL = [("h_codec", "plain"), ("h_codec", "plain-asan"), ("h_codec", "plain-init0"), ("h_codec", "plain-initpat"),
        ("h_file", "sched"), ("h_fault", "sched-asan")]


def main():
    t0 = time.time()
    os.makedirs(os.path.join(build.VERIF, "evidence"), exist_ok=True)
    p, _ = gen_reflect.generate()
    for name, variant in PLAIN:
        build.build_harness(name, [os.path.join(build.VERIF, "harness", name + ".cpp")], variant)
        print("built", name, variant, "%.0fs" % (time.time() - t0), flush=True)
    for name, variant in REFL:
        build.build_harness(name, [os.path.join(build.VERIF, "harness", name + ".cpp")], variant, gen_deps=[p])
        print("built", name, variant, "%.0fs" % (time.time() - t0), flush=True)
    print("setup ok in %.0f s" % (time.time() - t0))


if __name__ == "__main__":
    main()
