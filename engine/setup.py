#!/usr/bin/env python3
"""MANIFEST.setup_cmd: pre-build the library variants and harnesses from files on disk (offline)."""
import os
import sys

sys.path.insert(0, os.path.dirname(os.path.abspath(__file__)))
import build


def main():
    os.makedirs(os.path.join(build.VERIF, "evidence"), exist_ok=True)
    for v in ("sched", "plain"):
        with build._Lock():
            build.build_lib(v)
    print("setup ok")


if __name__ == "__main__":
    main()
