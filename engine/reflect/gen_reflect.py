#!/usr/bin/env python3
"""Generated reflection for the object classes of the library under test.

Runs `clang++ -fsyntax-only -Xclang -ast-dump=json -Xclang -ast-dump-filter=Vector` on File.h of the
*current* tree and emits build/gen/<digest>/reflect_gen.h:
  * template<class V> void visit(T&, V&) for every record (bases first, then fields in declaration order)
  * the class table: name, expected type codes (from File.h's include comments = what the format assigns),
    make / clone / placement construct / destroy, sizeof
  * dispatch(ObjectHeaderBase&, V&) by dynamic type
and tables.json (enum values, File.h mapping, resize pairs, remainder members, pre-processing assignments).

A field kind the visitors cannot handle is a compile error in the harness = infrastructure error, never a violation.
"""
import hashlib
import json
import os
import re
import subprocess
import sys

sys.path.insert(0, os.path.dirname(os.path.dirname(os.path.abspath(__file__))))
import build  # noqa: E402


def _docs(text):
    dec = json.JSONDecoder()
    pos, n = 0, len(text)
    while pos < n:
        while pos < n and text[pos] in " \n\r\t":
            pos += 1
        if pos >= n:
            break
        if text[pos] != "{":
            nl = text.find("\n", pos)
            pos = nl + 1 if nl >= 0 else n
            continue
        d, pos = dec.raw_decode(text, pos)
        yield d


def parse_ast(repo):
    cmd = ["clang++", "-std=c++14", "-fsyntax-only", "-Xclang", "-ast-dump=json", "-Xclang", "-ast-dump-filter=Vector",
           "-I", os.path.join(repo, "src"), "-I", build.stub_dir(), os.path.join(repo, "src/Vector/BLF/File.h")]
    r = subprocess.run(cmd, capture_output=True, text=True)
    if not r.stdout.strip():
        raise build.BuildError("clang AST dump failed: " + r.stderr[-2000:])
    recs = {}
    order = []

    def walk(n):
        if n.get("kind") == "CXXRecordDecl" and n.get("completeDefinition") and n.get("name"):
            name = n["name"]
            if name not in recs:
                fields = []
                for c in n.get("inner", []):
                    if c.get("kind") == "FieldDecl" and c.get("name"):
                        fields.append((c["name"], c["type"].get("desugaredQualType", c["type"]["qualType"]), c["type"]["qualType"],
                                       any(i.get("kind", "").endswith("Expr") or i.get("kind") == "InitListExpr" or "Literal" in i.get("kind", "")
                                           or i.get("kind") in ("ExprWithCleanups", "CXXConstructExpr", "ImplicitValueInitExpr")
                                           for i in c.get("inner", [])) or c.get("hasInClassInitializer", False)))
                bases = [b["type"]["qualType"].replace("Vector::BLF::", "") for b in n.get("bases", [])]
                abstract = False
                recs[name] = {"bases": bases, "fields": fields}
                order.append(name)
        for c in n.get("inner", []):
            walk(c)

    for d in _docs(r.stdout):
        walk(d)
    return recs, order


def enum_values(repo):
    txt = open(os.path.join(repo, "src/Vector/BLF/ObjectHeaderBase.h")).read()
    m = re.search(r"enum class ObjectType[^{]*\{(.*?)\};", txt, re.S)
    vals = {}
    for name, v in re.findall(r"^\s*([A-Za-z_0-9]+)\s*=\s*(\d+)", m.group(1), re.M):
        vals[name] = int(v)
    return vals


def fileh_mapping(repo, enums):
    """class <- type code, as File.h's include list documents it"""
    out = []
    for hdr, name, val in re.findall(r"#include <Vector/BLF/([A-Za-z0-9_]+)\.h>\s*//\s*([A-Za-z_0-9]+)\s*=\s*(\d+)",
                                     open(os.path.join(repo, "src/Vector/BLF/File.h")).read()):
        out.append((hdr, name, int(val)))
    return out


def create_mapping(repo):
    txt = open(os.path.join(repo, "src/Vector/BLF/File.cpp")).read()
    m = re.search(r"File::createObject\(ObjectType type\)\s*\{(.*?)\n\}", txt, re.S)
    body = m.group(1) if m else ""
    out = {}
    cur = []
    for line in body.splitlines():
        c = re.search(r"case ObjectType::([A-Za-z_0-9]+):", line)
        if c:
            cur.append(c.group(1))
        n = re.search(r"new\s+([A-Za-z_0-9]+)\s*(\(\s*\))?\s*;", line)
        if n:
            for e in cur:
                out[e] = n.group(1)
        if "break" in line:
            cur = []
    return out


def codec_tables(repo, recs):
    pairs, remainders, pre = {}, {}, {}
    for cls in recs:
        p = os.path.join(repo, "src/Vector/BLF", cls + ".cpp")
        if not os.path.exists(p):
            continue
        txt = open(p).read()
        for mem, expr in re.findall(r"^\s*([A-Za-z_0-9]+)\.resize\((.*)\);", txt, re.M):
            expr = expr.strip()
            if "objectSize" in expr:
                remainders.setdefault(cls, []).append(mem)
            else:
                m = re.match(r"^([A-Za-z_0-9]+)(\s*/\s*(.*))?$", expr)
                if m:
                    pairs.setdefault(cls, []).append((mem, m.group(1), m.group(3) or ""))
        w = re.search(r"::write\(AbstractFile & os\)\s*\{(.*?)\n\}", txt, re.S)
        if w:
            for lhs in re.findall(r"^\s*([A-Za-z_0-9]+)\s*=\s*[^=].*;", w.group(1), re.M):
                pre.setdefault(cls, []).append(lhs)
    return pairs, remainders, pre


SKIP_CLASSES = {"LogContainer", "File", "UncompressedFile", "CompressedFile", "AbstractFile", "ObjectQueue", "Exception", "FileStatistics"}


def generate(repo=None, outdir=None):
    repo = repo or build.REPO
    recs, order = parse_ast(repo)
    enums = enum_values(repo)
    fmap = fileh_mapping(repo, enums)
    cmap = create_mapping(repo)
    if len(fmap) < 100 or len(enums) < 100:
        # the expectation tables could not be derived (comments / enum reformatted): infrastructure, never a violation
        raise build.BuildError("could not derive the type-code tables from File.h / ObjectHeaderBase.h (%d include comments, %d enum values)" % (len(fmap), len(enums)))
    pairs, remainders, pre = codec_tables(repo, recs)

    def derives_ohb(name, seen=()):
        if name == "ObjectHeaderBase":
            return True
        r = recs.get(name)
        if not r:
            return False
        return any(derives_ohb(b) for b in r["bases"])

    # classes the format assigns codes to (File.h), in code order; a class may serve several codes
    codes = {}
    for hdr, ename, val in fmap:
        codes.setdefault(hdr, []).append(val)
    concrete = [c for c in codes if c in recs and derives_ohb(c)]
    # every other creatable class mentioned by createObject must be visited too
    for e, c in cmap.items():
        if c in recs and c not in concrete and derives_ohb(c):
            concrete.append(c)
            codes.setdefault(c, [])

    lines = ["// generated by engine/reflect/gen_reflect.py - do not edit",
             "#pragma once",
             "#include <Vector/BLF.h>",
             "#include <new>", "#include <typeinfo>", "#include <vector>", "#include <string>", "",
             "namespace refl {", "using namespace Vector::BLF;", ""]
    declared = set()
    import glob as _glob
    for h in _glob.glob(os.path.join(repo, "src/Vector/BLF/*.h")):
        for m in re.finditer(r"^\s*(?:struct|class)\s+(?:VECTOR_BLF_EXPORT\s+)?([A-Za-z_0-9]+)\b[^;]*$", open(h).read(), re.M):
            declared.add(m.group(1))
    visited = []
    for name in order:
        if name in SKIP_CLASSES or name not in declared:
            continue
        r = recs[name]
        ok = True
        for fn, ft, _, _ in r["fields"]:
            if any(x in ft for x in ("mutex", "condition_variable", "thread", "fstream", "atomic", "exception_ptr", "_Vector_impl", "_Vector_base")):
                ok = False
        if not ok:
            continue
        visited.append(name)
    for name in visited:
        lines.append("template<class V> void visit(%s & o, V & v);" % name)
    lines.append("")
    for name in visited:
        r = recs[name]
        lines.append("template<class V> void visit(%s & o, V & v) {" % name)
        for b in r["bases"]:
            if b in visited:
                lines.append("    v.base(\"%s\"); visit(static_cast<%s &>(o), v); v.base_end();" % (b, b))
        for fn, ft, _, _ in r["fields"]:
            lines.append("    v.field(\"%s\", o.%s);" % (fn, fn))
        lines.append("}")
    lines.append("")
    lines.append("struct ClassInfo {")
    lines.append("    const char * name; std::vector<uint32_t> codes; size_t size;")
    lines.append("    ObjectHeaderBase * (*make)(); ObjectHeaderBase * (*clone)(const ObjectHeaderBase &);")
    lines.append("    ObjectHeaderBase * (*construct_at)(void *); void (*destroy_at)(ObjectHeaderBase *);")
    lines.append("    const std::type_info * ti;")
    lines.append("};")
    lines.append("inline const std::vector<ClassInfo> & classes() {")
    lines.append("    static const std::vector<ClassInfo> t = {")
    for c in concrete:
        lines.append("        {\"%s\", {%s}, sizeof(%s), []() -> ObjectHeaderBase * { return new %s; },"
                     " [](const ObjectHeaderBase & o) -> ObjectHeaderBase * { return new %s(static_cast<const %s &>(o)); },"
                     " [](void * p) -> ObjectHeaderBase * { return new (p) %s; }, [](ObjectHeaderBase * o) { static_cast<%s *>(o)->~%s(); }, &typeid(%s)},"
                     % (c, ",".join(map(str, codes.get(c, []))), c, c, c, c, c, c, c, c))
    lines.append("    };")
    lines.append("    return t;")
    lines.append("}")
    lines.append("template<class V> bool dispatch(ObjectHeaderBase & o, V & v) {")
    lines.append("    const std::type_info & ti = typeid(o);")
    for c in concrete:
        lines.append("    if (ti == typeid(%s)) { visit(static_cast<%s &>(o), v); return true; }" % (c, c))
    lines.append("    return false;")
    lines.append("}")
    lines.append("inline const ClassInfo * class_of(const ObjectHeaderBase & o) {")
    lines.append("    for (auto & c : classes()) if (*c.ti == typeid(o)) return &c;")
    lines.append("    return nullptr;")
    lines.append("}")
    lines.append("inline const ClassInfo * class_by_name(const std::string & n) {")
    lines.append("    for (auto & c : classes()) if (n == c.name) return &c;")
    lines.append("    return nullptr;")
    lines.append("}")
    # tables
    lines.append("struct Pair { const char * cls; const char * member; const char * length_field; const char * divisor; };")
    lines.append("inline const std::vector<Pair> & resize_pairs() { static const std::vector<Pair> t = {")
    for cls, ps in sorted(pairs.items()):
        for mem, lf, div in ps:
            lines.append("    {\"%s\", \"%s\", \"%s\", \"%s\"}," % (cls, mem, lf, div.replace('"', "")))
    lines.append("}; return t; }")
    lines.append("struct Rem { const char * cls; const char * member; };")
    lines.append("inline const std::vector<Rem> & remainder_members() { static const std::vector<Rem> t = {")
    for cls, ms in sorted(remainders.items()):
        for m in ms:
            lines.append("    {\"%s\", \"%s\"}," % (cls, m))
    lines.append("}; return t; }")
    lines.append("inline const std::vector<Rem> & preprocessed_fields() { static const std::vector<Rem> t = {")
    for cls, ms in sorted(pre.items()):
        for m in ms:
            lines.append("    {\"%s\", \"%s\"}," % (cls, m))
    lines.append("}; return t; }")
    lines.append("inline const std::vector<uint32_t> & reserved_codes() { static const std::vector<uint32_t> t = {%s}; return t; }"
                 % ",".join(str(v) for n, v in sorted(enums.items(), key=lambda kv: kv[1]) if n.startswith("Reserved") or n == "UNKNOWN"))
    lines.append("inline uint32_t max_code() { return %d; }" % max(enums.values()))
    lines.append("}  // namespace refl")
    text = "\n".join(lines) + "\n"
    dig = hashlib.sha256(text.encode()).hexdigest()[:16]
    outdir = outdir or os.path.join(build.BUILD, "gen")
    os.makedirs(outdir, exist_ok=True)
    p = os.path.join(outdir, "reflect_gen.h")
    if not os.path.exists(p) or open(p).read() != text:
        with open(p + ".tmp", "w") as f:
            f.write(text)
        os.replace(p + ".tmp", p)
    tables = {"enums": enums, "fileh": fmap, "create": cmap, "pairs": pairs, "remainders": remainders, "pre": pre,
              "classes": concrete, "uninitialised_members": {c: [f[0] for f in recs[c]["fields"] if not f[3]] for c in recs},
              "digest": dig}
    with open(os.path.join(outdir, "tables.json"), "w") as f:
        json.dump(tables, f, indent=1)
    return p, tables


if __name__ == "__main__":
    p, t = generate()
    print(p, len(t["classes"]), "classes")
    print({c: m for c, m in t["uninitialised_members"].items() if m})
