#!/bin/bash
# tools/try_seed.sh <patch.diff> <check id>...   - applies a seeded change to /repo, runs the quick checks, undoes it
set -u
patch=$1; shift
cd /repo || exit 2
if ! git diff --quiet; then echo "/repo has uncommitted changes"; exit 2; fi
git apply "$patch" || { echo "patch does not apply"; exit 2; }
bak=$(mktemp -d); cp -r /verif/evidence $bak/ 2>/dev/null
trap 'git -C /repo checkout -- . ; rm -rf /verif/evidence; cp -r $bak/evidence /verif/evidence; rm -rf $bak /verif/replay' EXIT
cd /verif
for c in "$@"; do
  start=$(date +%s)
  out=$(bin/check "$c" --tier ${TIER:-quick} 2>&1); rc=$?
  echo "== $c rc=$rc ($(( $(date +%s) - start )) s)"
  echo "$out" | grep -E "VIOLATION|what:|KNOWN|INFRA" | cut -c1-600 | head -6
done
