#!/usr/bin/env python3
"""Self-test: every 'fix:' commit in /repo is reverted on a scratch worktree (outside /repo and /verif) and the owning
check must report the violation again.  Usage: tools/revert_test.py [commit ...]   (default: all)
Results are appended to /verif/seeded/fix_reverts.json."""
import json
import os
import subprocess
import sys
import tempfile
import time

VERIF = os.path.dirname(os.path.dirname(os.path.abspath(__file__)))
OWN = {
    "do not access an object after it was handed": ["C11"],
    "read workers declare end of stream": ["C10"],
    "skip at least one base header": ["C09", "C10"],
    "signature search ends on any failed": ["C06", "C10"],
    "validate the log container header": ["C10", "C08"],
    "dropOldData() drops every": ["C12"],
    "a reader waiting for more than the buffer": ["C06"],
    "appended to an empty list": ["C12"],
    "close() of a read session stops": ["C06", "C12"],
    "appending a log container closes": ["C15"],
    "LinMessage writes the optional": ["C03"],
    "LinSendError2 writes the optional": ["C03"],
    "EthernetStatus counts the version 2": ["C03"],
    "SerialEvent sizes the general": ["C03"],
    "GlobalMarker derives its length": ["C03"],
    "AfdxBusStatistic is constructed": ["C17"],
    "CanSettingChanged reads back": ["C03", "C01"],
    "GeneralSerialEvent::read() does not write past": ["C10"],
    "decide once per write": ["C03"],
    "emit extended frame data exactly": ["C03"],
    "value-initialise the data members": ["C17"],
    "default-constructed EnvironmentVariable": ["C17"],
    "zero-length read does not clear": ["C08"],
    "uncompressed log container must hold": ["C10"],
    "declares less than a base header": ["C10"],
}


def sh(*a, **kw):
    return subprocess.run(a, capture_output=True, text=True, **kw)


def main():
    log = sh("git", "-C", "/repo", "log", "--format=%h %s", "--grep=^fix:").stdout.strip().splitlines()
    want = sys.argv[1:]
    out_path = os.path.join(VERIF, "seeded", "fix_reverts.json")
    results = json.load(open(out_path)) if os.path.exists(out_path) else {}
    for line in log:
        c, subj = line.split(" ", 1)
        if want and c not in want:
            continue
        checks = next((v for k, v in OWN.items() if k in subj), None)
        if not checks:
            print("no owner for", subj)
            continue
        wt = tempfile.mkdtemp(prefix="rv_%s_" % c, dir="/tmp")
        os.rmdir(wt)
        r = sh("git", "-C", "/repo", "worktree", "add", "-q", wt, "HEAD")
        try:
            diff = sh("git", "-C", "/repo", "show", c, "--format=", "--", "src").stdout
            ap = subprocess.run(["git", "-C", wt, "apply", "-R", "-"], input=diff, capture_output=True, text=True)
            if ap.returncode != 0:
                ap = subprocess.run(["git", "-C", wt, "apply", "-R", "-3", "-"], input=diff, capture_output=True, text=True)
            if ap.returncode != 0:
                results[c] = {"subject": subj, "status": "revert does not apply (later fixes touch the same lines)", "detail": ap.stderr[-300:]}
                print(c, "REVERT-FAILED", subj)
                continue
            env = dict(os.environ, VERIF_REPO=wt, VERIF_EVIDENCE_DIR=os.path.join(wt, "_evidence"), VERIF_REPLAY_DIR=os.path.join(wt, "_replay"))
            hit = []
            for chk in checks:
                t = time.time()
                rr = subprocess.run([os.path.join(VERIF, "bin/check"), chk, "--tier", "quick"], capture_output=True, text=True, env=env, cwd=VERIF)
                lines = [l for l in rr.stdout.splitlines() if l.startswith("VIOLATION") or l.strip().startswith("what:")]
                hit.append({"check": chk, "rc": rr.returncode, "seconds": round(time.time() - t), "first": (lines[1].strip()[:300] if len(lines) > 1 else "")})
                if rr.returncode == 1:
                    break
            ok = any(h["rc"] == 1 for h in hit)
            results[c] = {"subject": subj, "status": "DETECTED" if ok else "not detected", "runs": hit}
            print(c, "DETECTED" if ok else "NOT-DETECTED", subj, [(h["check"], h["rc"]) for h in hit], flush=True)
        finally:
            sh("git", "-C", "/repo", "worktree", "remove", "--force", wt)
            json.dump(results, open(out_path, "w"), indent=1)


if __name__ == "__main__":
    main()
