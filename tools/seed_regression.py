#!/usr/bin/env python3
"""tools/seed_regression.py [name-prefix ...] - applies every saved seeded change to a scratch worktree of /repo (never to
/repo itself), runs the quick tier of the check of the seed's property against it (VERIF_REPO) and records whether the
current checks still detect it.  Result: seeded/regression.json.  The worktree is removed at the end."""
import json, os, subprocess, sys, time, shutil

WT = '/tmp/seedreg'
SEEDS = '/verif/seeded'
OUT = os.path.join(SEEDS, 'regression.json')


def sh(*a, **kw):
    return subprocess.run(a, capture_output=True, text=True, **kw)


def main():
    pref = sys.argv[1:]
    names = sorted(d for d in os.listdir(SEEDS) if os.path.isfile(os.path.join(SEEDS, d, 'patch.diff')))
    if pref:
        names = [n for n in names if any(n.startswith(p) for p in pref)]
    sh('git', '-C', '/repo', 'worktree', 'remove', '--force', WT)
    r = sh('git', '-C', '/repo', 'worktree', 'add', '--detach', WT, 'HEAD')
    if r.returncode:
        print(r.stderr); return 2
    results = {}
    if os.path.exists(OUT) and pref:
        results = json.load(open(OUT)).get('seeds', {})
    env = dict(os.environ, VERIF_REPO=WT, VERIF_EVIDENCE_DIR='/tmp/seedreg_ev', VERIF_REPLAY_DIR='/tmp/seedreg_rp')
    try:
        for n in names:
            prop = json.load(open(os.path.join(SEEDS, n, 'meta.json')))['property']
            sh('git', '-C', WT, 'checkout', '--', '.')
            # patch_current.diff: the same edit re-based by hand where later fix: commits changed the context lines
            pf = os.path.join(SEEDS, n, 'patch_current.diff')
            if not os.path.exists(pf):
                pf = os.path.join(SEEDS, n, 'patch.diff')
            a = sh('git', '-C', WT, 'apply', pf)
            if a.returncode:
                results[n] = {'property': prop, 'applies': False, 'detected': None, 'note': a.stderr.strip()[:200]}
                print(n, 'patch does not apply to the current tree'); continue
            t0 = time.time()
            r = sh('/verif/bin/check', prop, '--tier', 'quick', env=env)
            lines = (r.stdout + r.stderr).splitlines()
            viol = [l for l in lines if l.startswith('VIOLATION')]
            what = next((l.strip() for l in lines if l.strip().startswith('what:')), '')
            results[n] = {'property': prop, 'applies': True, 'rc': r.returncode, 'detected': r.returncode == 1 and bool(viol),
                          'violation_lines': len(viol), 'first': what[:300], 'wall_s': round(time.time() - t0, 1)}
            print(n, 'rc=%d' % r.returncode, 'detected' if results[n]['detected'] else 'NOT DETECTED', '%.0fs' % (time.time() - t0), flush=True)
            json.dump({'repo_head': sh('git', '-C', '/repo', 'rev-parse', 'HEAD').stdout.strip(), 'seeds': results}, open(OUT, 'w'), indent=1)
    finally:
        sh('git', '-C', '/repo', 'worktree', 'remove', '--force', WT)
        shutil.rmtree('/tmp/seedreg_ev', ignore_errors=True)
        shutil.rmtree('/tmp/seedreg_rp', ignore_errors=True)
    nd = [n for n, v in results.items() if v.get('applies') and not v.get('detected')]
    print('seeds: %d, detected: %d, not detected: %s' % (len(results), sum(1 for v in results.values() if v.get('detected')), nd))
    return 0


if __name__ == '__main__':
    sys.exit(main())
