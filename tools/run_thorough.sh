#!/bin/bash
# tools/run_thorough.sh <id>...  - runs thorough tiers one after another, evidence/replay redirected to a scratch dir
out=${OUT:-/tmp/thorough_out}; mkdir -p $out
for c in "$@"; do
  s=$(date +%s)
  VERIF_EVIDENCE_DIR=$out/evidence VERIF_REPLAY_DIR=$out/replay /verif/bin/check $c --tier thorough > $out/$c.log 2>&1; rc=$?
  echo "$c rc=$rc $(( $(date +%s) - s ))s $(grep -c VIOLATION $out/$c.log) viol" | tee -a $out/summary.txt
done
