#!/usr/bin/env python3
"""tools/save_seed.py <id> <name> <src seed_out dir> <verify log> <caught-by text>"""
import json, os, shutil, sys
sid, name, src, log, caught = sys.argv[1:6]
dst = os.path.join('/verif/seeded', name)
os.makedirs(dst, exist_ok=True)
shutil.copy(os.path.join(src, 'patch.diff'), dst)
if os.path.isdir(os.path.join(dst, 'demo')):
    shutil.rmtree(os.path.join(dst, 'demo'))
shutil.copytree(os.path.join(src, 'demo'), os.path.join(dst, 'demo'))
meta = {}
try:
    meta = json.load(open(os.path.join(src, 'meta.json')))
except Exception as e:
    meta = {'note': 'agent meta.json unreadable: %r' % e}
lines = [l.strip() for l in open(log)] if os.path.exists(log) else []
meta_out = {
    'property': sid,
    'summary': meta.get('summary'),
    'needs_to_manifest': meta.get('needs'),
    'origin': 'independent sub-agent given only the property text and a scratch worktree',
    'agent_report': {k: meta.get(k) for k in ('tests_run', 'demo_with_change', 'demo_without_change')},
    'verified_by_me': {
        'how': 'scratch worktree: git apply patch.diff; cmake --build + ctest -j16 --timeout 60; demo/run_demo.sh <tree> with the change and after git checkout -- src',
        'suite_with_change': next((l for l in lines if 'tests passed' in l), None),
        'demo_rc_with_change': next((l for l in lines if l.startswith('rc=')), None),
        'demo_rc_without_change': ([l for l in lines if l.startswith('rc=')] + [None, None])[1],
    },
    'caught_by': caught,
}
json.dump(meta_out, open(os.path.join(dst, 'meta.json'), 'w'), indent=1)
print('saved', dst)
