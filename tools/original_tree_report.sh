#!/bin/bash
# Runs every quick check against a worktree of the original commit (before the fix: commits) and records what each reports.
set -u
orig=${1:-/tmp/orig}
out=/verif/seeded/original_tree_report.txt
: > $out
for c in C01 C02 C03 C04 C05 C06 C07 C08 C09 C10 C11 C12 C13 C14 C15 C16 C17; do
  s=$(date +%s)
  o=$(VERIF_REPO=$orig VERIF_EVIDENCE_DIR=/tmp/orig_ev VERIF_REPLAY_DIR=/tmp/orig_rp timeout 1800 /verif/bin/check $c --tier quick 2>&1); rc=$?
  echo "== $c rc=$rc $(( $(date +%s) - s ))s: $(echo "$o" | grep -c '^VIOLATION') violation line(s)" >> $out
  echo "$o" | grep -E "^  what:" | cut -c1-260 | head -4 >> $out
done
rm -rf /tmp/orig_ev /tmp/orig_rp
